package tree

import (
	"fmt"
	"sort"
	"strings"

	"github.com/anyproto/any-sync/commonspace/object/tree/objecttree"

	"verifharness/internal/corr"
)

// Disagreements (model ≠ implementation) are recorded but never stop the run: the direct oracles must get the
// chance to turn a broken correspondence into a concrete failing input. At most `perStreamCap` are recorded
// per stream and `totalCap` in all (the shared issue cap is 20; violations must not be crowded out); once a
// stream reached its cap its model comparisons are skipped (they became meaningless), the oracles stay active.
const (
	perStreamCap = 4
	totalCap     = 10
)

var (
	disagreePerStream = map[string]int{}
	disagreeTotal     int
)

func resetCorrState() {
	disagreePerStream = map[string]int{}
	disagreeTotal = 0
}

func streamOpen(stream string) bool {
	return disagreePerStream[stream] < perStreamCap && disagreeTotal < totalCap
}

// modelCheck asks the model (unless the stream is closed) and records a disagreement; returns false on one.
func modelCheck(r *corr.Run, prop, stream string, ops func() []string, op, impl string) bool {
	return modelCheckF(r, prop, stream, ops, op, impl, nil)
}

// modelCheckF: as modelCheck, comparing norm(model answer) with impl (norm may also count what the model did).
func modelCheckF(r *corr.Run, prop, stream string, ops func() []string, op, impl string, norm func(string) string) bool {
	if !streamOpen(stream) {
		r.Count("corr.skipped." + stream)
		return true
	}
	model := r.Ask(op)
	if norm != nil {
		model = norm(model)
	}
	if model == impl {
		return true
	}
	disagreePerStream[stream]++
	disagreeTotal++
	r.Count("corr.disagree." + stream)
	r.Disagree(prop, stream, "model and implementation differ", ops(), model, impl)
	return false
}

// violations counts the failing inputs found for the focus property (all, when no focus is set).
// tlViolate records a violation found on the pure Tree. While the check of the OTHER property of this area runs it
// is recorded at most otherCap times (shared with the history oracles): otherwise the pure-Tree oracles, which all
// speak about C06, fill the shared issue cap of 20 and the C09 oracles' findings are dropped.
func tlViolate(r *corr.Run, prop, stream, desc string, ops []string) {
	if focusProp != "" && prop != focusProp {
		r.Count("violation.other-property." + stream)
		if otherCount >= otherCap {
			return
		}
		otherCount++
	}
	r.Violate(prop, "", stream, desc, ops)
}

func violations(r *corr.Run) int {
	n := 0
	for _, is := range r.Res.Issues {
		if is.Kind == "violation" && (focusProp == "" || is.Property == focusProp) {
			n++
		}
	}
	return n
}

// interner maps the real id strings of one operation to 1..k preserving their STRING order (children are
// sorted by the real id string in Tree.attach, so the model must see the same order). 0 = "no such change".
type interner struct {
	rank map[string]int
	back []string
}

func newInterner(ids []string) *interner {
	u := sortedCopy(dedup(ids))
	in := &interner{rank: map[string]int{}, back: make([]string, len(u)+1)}
	for i, id := range u {
		in.rank[id] = i + 1
		in.back[i+1] = id
	}
	return in
}

func (in *interner) n(id string) int { return in.rank[id] }

func (in *interner) list(ids []string) string {
	if len(ids) == 0 {
		return "-"
	}
	p := make([]string, len(ids))
	for i, id := range ids {
		p[i] = fmt.Sprint(in.rank[id])
	}
	return strings.Join(p, ",")
}

// sortedList renders ids as their ranks in increasing rank order.
func (in *interner) sortedList(ids []string) string {
	r := make([]int, len(ids))
	for i, id := range ids {
		r[i] = in.rank[id]
	}
	sort.Ints(r)
	if len(r) == 0 {
		return "-"
	}
	p := make([]string, len(r))
	for i, x := range r {
		p[i] = fmt.Sprint(x)
	}
	return strings.Join(p, ",")
}

func (in *interner) change(ci *chInfo) string {
	s := "0"
	if ci.isSnap {
		s = "1"
	}
	return fmt.Sprintf("%d/%s/%d/%s", in.rank[ci.id], in.list(ci.prevs), in.rank[ci.snap], s)
}

func (w *world) idsOf(set []string) []string {
	var all []string
	for _, id := range set {
		all = append(all, id)
		if ci := w.info[id]; ci != nil {
			all = append(all, ci.prevs...)
			if ci.snap != "" {
				all = append(all, ci.snap)
			}
		}
	}
	return all
}

// corrReplica: the real iteration and the real stored order against the model's order of the same sets.
func (w *world) corrReplica(rep *replica, what string) {
	t := objecttree.VerifTree(rep.tree)
	mem := t.VerifAttachedIds()
	it := iterIds(rep.tree)
	{
		in := newInterner(w.idsOf(mem))
		parts := []string{"iter", fmt.Sprint(in.n(rep.tree.Root().Id))}
		for _, id := range mem {
			parts = append(parts, in.change(w.info[id]))
		}
		op := strings.Join(parts, " ")
		modelCheck(w.r, "C06", "tree.iter", func() []string { return append(w.ops(), what, op) }, op, "ok "+in.list(it))
	}
	sids := storedIds(w.stored(rep))
	if len(sids) != len(mem) || sids[0] != it[0] {
		in := newInterner(w.idsOf(sids))
		parts := []string{"iter", fmt.Sprint(in.n(w.rootId))}
		for _, id := range sids {
			parts = append(parts, in.change(w.info[id]))
		}
		op := strings.Join(parts, " ")
		modelCheck(w.r, "C06", "tree.stored", func() []string { return append(w.ops(), what, op) }, op, "ok "+in.list(sids))
	}
}

// corrAddRaw: the set of changes the real AddRawChanges reports as added (= writes to storage) against the model's
// `addRaw` (in-memory branch / rebuild-from-storage branch) on the receiver's pre-state.
func (w *world) corrAddRaw(pre addRawPre, batchIds []string, theirPath []string, addedIds []string, what string) {
	var ids []string
	ids = append(ids, w.idsOf(pre.att)...)
	ids = append(ids, w.idsOf(batchIds)...)
	ids = append(ids, w.idsOf(pre.stored)...)
	ids = append(ids, pre.path...)
	ids = append(ids, theirPath...)
	in := newInterner(ids)
	var attS, bS, stS []string
	attS = append(attS, in.change(w.info[pre.root]))
	for _, id := range pre.att {
		if id != pre.root {
			attS = append(attS, in.change(w.info[id]))
		}
	}
	for _, id := range batchIds {
		bS = append(bS, in.change(w.info[id]))
	}
	for _, id := range pre.stored {
		stS = append(stS, in.change(w.info[id]))
	}
	op := fmt.Sprintf("addraw %d %s %s | %s | %s | %s", in.n(pre.root), in.list(pre.path), in.list(theirPath),
		strings.Join(attS, " "), strings.Join(bS, " "), strings.Join(stS, " "))
	impl := "added=" + in.sortedList(addedIds)
	modelCheckF(w.r, "C09", "objecttree.addraw", func() []string { return append(w.ops(), what, op) }, op, impl,
		func(m string) string {
			f := strings.Fields(m)
			if len(f) == 3 && f[0] == "ok" {
				w.r.Count("corr.addraw." + f[1])
				return f[2]
			}
			return m
		})
}

type addRawPre struct {
	root   string
	att    []string
	stored []string
	path   []string
}

// corrRebuild: the tree just built from storage against the model's `buildFromStorage` on the stored sequence.
func (w *world) corrRebuild(rep *replica) {
	cs, err := rep.st.CommonSnapshot(w.ctx)
	if err != nil {
		return
	}
	sids := storedIds(w.stored(rep))
	in := newInterner(w.idsOf(sids))
	parts := []string{"rebuild", fmt.Sprint(in.n(cs))}
	for _, id := range sids {
		parts = append(parts, in.change(w.info[id]))
	}
	op := strings.Join(parts, " ")
	t := objecttree.VerifTree(rep.tree)
	it := iterIds(rep.tree)
	impl := fmt.Sprintf("ok %d %s heads=%s last=%d", in.n(rep.tree.Root().Id), in.list(it), in.sortedList(rep.tree.Heads()), in.n(t.VerifLastIteratedHeadId()))
	modelCheck(w.r, "C06", "tree.rebuild", func() []string { return append(w.ops(), "reopen", op) }, op, impl)
	w.r.Count("corr.tree.rebuild")
}

// corrLoader: the real loader's answer against the model's `respond` on the responder's stored sequence.
func (w *world) corrLoader(resp *replica, theirHeads, theirPath []string, limit int, batches []loaderBatch, what string) {
	w.corrLoaderAt(w.respNow(resp), theirHeads, theirPath, limit, batches, what)
}

func (w *world) corrLoaderAt(at respState, theirHeads, theirPath []string, limit int, batches []loaderBatch, what string) {
	ourPath := at.path
	if len(ourPath) == 0 {
		return
	}
	cs := ourPath[len(ourPath)-1]
	if len(theirPath) != 0 {
		in := newInterner(append(append([]string{}, ourPath...), theirPath...))
		op := fmt.Sprintf("common %s %s", in.list(ourPath), in.list(theirPath))
		real, err := objecttree.VerifCommonSnapshotForTwoPaths(ourPath, theirPath)
		impl := "err nocommon"
		if err == nil {
			impl = fmt.Sprintf("ok %d", in.n(real))
			cs = real
		}
		if !modelCheck(w.r, "C09", "loader.common", func() []string { return append(w.ops(), what, op) }, op, impl) {
			return // the cache the model would get starts at another snapshot: `respond` cannot be compared
		}
		if err != nil {
			return
		}
	}
	st := at.full
	start := -1
	for i, c := range st {
		if c.Id == cs {
			start = i
		}
	}
	if start < 0 {
		return
	}
	cache := st[start:]
	var ids []string
	for _, c := range cache {
		ids = append(ids, c.Id)
		ids = append(ids, c.PrevIds...)
	}
	ids = append(ids, theirHeads...)
	in := newInterner(ids)
	parts := []string{"respond", fmt.Sprint(limit), in.list(theirHeads)}
	for _, c := range cache {
		parts = append(parts, fmt.Sprintf("%d/%s/%d", in.n(c.Id), in.list(c.PrevIds), len(c.RawChange)))
	}
	op := strings.Join(parts, " ")
	impl := "ok -"
	if len(batches) > 0 {
		bs := make([]string, len(batches))
		for i, b := range batches {
			bs[i] = in.list(b.ids) + ";" + in.sortedList(b.heads)
		}
		impl = "ok " + strings.Join(bs, " ")
	}
	modelCheck(w.r, "C09", "loader.respond", func() []string { return append(w.ops(), what, op) }, op, impl)
	w.r.Count("corr.loader.respond")
}

// ---------------------------------------------------------------------------------------------
// pure objecttree.Tree stream: arbitrary (not only honest) small DAGs, arbitrary batches

type tnode struct {
	id     string
	prevs  []string
	snap   string
	isSnap bool
}

func (n *tnode) info() *chInfo {
	return &chInfo{id: n.id, prevs: n.prevs, snap: n.snap, isSnap: n.isSnap}
}

func mkChange(n *tnode) *objecttree.Change {
	return &objecttree.Change{Id: n.id, PreviousIds: append([]string{}, n.prevs...), SnapshotId: n.snap, IsSnapshot: n.isSnap}
}

// genDag: a random DAG over ids drawn from a tiny alphabet (many prefix-related ids); not necessarily honest.
// Fans (several concurrent children of one change) and chains are both frequent.
func genDag(r *corr.Run, honest bool) ([]*tnode, map[string]*chInfo, *interner) {
	n := 2 + r.Intn(r.Pick(7, 10))
	alph := []string{"ab", "abc", "01"}[r.Intn(3)]
	used := map[string]bool{}
	fresh := func() string {
		for {
			l := 1 + r.Intn(3)
			b := make([]byte, l)
			for i := range b {
				b[i] = alph[r.Intn(len(alph))]
			}
			if !used[string(b)] {
				used[string(b)] = true
				return string(b)
			}
		}
	}
	nodes := []*tnode{{id: fresh(), isSnap: true}}
	fan := ""
	for i := 1; i < n; i++ {
		nd := &tnode{id: fresh(), isSnap: r.Chance(25)}
		np := 1
		if r.Chance(35) {
			np = 2 + r.Intn(2)
		}
		if !honest && r.Chance(6) {
			np = 0 // hostile: a non-root change without previous ids (must never be attached, nor its descendants)
			r.Count("treelevel.parentless")
		}
		for k := 0; k < np; k++ {
			p := nodes[r.Intn(len(nodes))].id
			switch {
			case k == 0 && fan != "" && r.Chance(45):
				p = fan // one more sibling under the same parent: >= 3 concurrent children are common
			case k == 0 && r.Chance(25):
				p = nodes[len(nodes)-1].id // extend the newest change: chains, branches of depth >= 2
			}
			if k == 0 {
				fan = p
			}
			dupl := false
			for _, q := range nd.prevs {
				if q == p {
					dupl = true
				}
			}
			if !dupl || r.Chance(5) {
				nd.prevs = append(nd.prevs, p)
			}
		}
		// snapshot reference: usually the root, sometimes another earlier snapshot, rarely something absent
		nd.snap = nodes[0].id
		if r.Chance(30) {
			c := nodes[r.Intn(len(nodes))]
			if c.isSnap {
				nd.snap = c.id
			}
		}
		if r.Chance(4) {
			nd.snap = "zz-absent"
		}
		if honest {
			// honest shape: the snapshot base is a snapshot among the ancestors-or-equal of the first previous id
			// (the creator's root), often a NEW snapshot rather than the tree root
			var cands []string
			seen := map[string]bool{}
			var up func(id string)
			up = func(id string) {
				if seen[id] {
					return
				}
				seen[id] = true
				for _, x := range nodes {
					if x.id == id {
						if x.isSnap {
							cands = append(cands, id)
						}
						for _, p := range x.prevs {
							up(p)
						}
					}
				}
			}
			if len(nd.prevs) > 0 {
				up(nd.prevs[0])
			}
			nd.snap = cands[r.Intn(len(cands))]
			if r.Chance(50) { // prefer the newest snapshot found first on the way up
				nd.snap = cands[0]
			}
		}
		nodes = append(nodes, nd)
	}
	info := map[string]*chInfo{}
	for _, nd := range nodes {
		info[nd.id] = nd.info()
	}
	var allIds []string
	for _, nd := range nodes {
		allIds = append(allIds, nd.id)
		allIds = append(allIds, nd.prevs...)
		allIds = append(allIds, nd.snap)
	}
	in := newInterner(append(allIds, "zz-absent"))
	delete(in.rank, "")
	return nodes, info, in
}

func treeLevelCase(r *corr.Run) {
	mode := r.Intn(100)
	if mode < 25 {
		var nodes []*tnode
		var info map[string]*chInfo
		protocol := r.Chance(60)
		if protocol {
			nodes, info = genHonest(r)
			r.Count("treelevel.closed.gen.protocol")
		} else {
			nodes, info, _ = genDag(r, true)
		}
		treeLevelClosedBatch(r, nodes, info, protocol)
		return
	}
	nodes, info, in := genDag(r, false)
	if mode < 55 {
		treeLevelDeterminism(r, nodes, info)
		return
	}
	tr := &objecttree.Tree{}
	rootMoved := false
	var trace []string
	// first Add: the root alone or together with others (empty-tree branch)
	rest := append([]*tnode{}, nodes[1:]...)
	r.Rand.Shuffle(len(rest), func(i, j int) { rest[i], rest[j] = rest[j], rest[i] })
	first := []*tnode{nodes[0]}
	if r.Chance(30) && len(rest) > 0 {
		k := r.Intn(len(rest) + 1)
		first = append(first, rest[:k]...)
		rest = rest[k:]
	}
	batches := [][]*tnode{first}
	for len(rest) > 0 {
		k := 1 + r.Intn(len(rest))
		if r.Chance(50) && k > 2 {
			k = 1 + r.Intn(2)
		}
		b := append([]*tnode{}, rest[:k]...)
		rest = rest[k:]
		// duplicates inside the batch, copies of attached changes, re-sending of earlier (maybe dropped) ones
		for x := r.Intn(3); x > 0; x-- {
			b = append(b, nodes[r.Intn(len(nodes))])
		}
		r.Rand.Shuffle(len(b), func(i, j int) { b[i], b[j] = b[j], b[i] })
		batches = append(batches, b)
	}
	if r.Chance(40) { // one more round with everything: what was dropped can attach now
		b := append([]*tnode{}, nodes[1:]...)
		r.Rand.Shuffle(len(b), func(i, j int) { b[i], b[j] = b[j], b[i] })
		batches = append(batches, b)
	}
	for _, b := range batches {
		// pre-state for the (stateless) model
		rootN, lastN := 0, 0
		var attS []string
		if tr.Root() != nil {
			rootN = in.n(tr.RootId())
			lastN = in.n(tr.VerifLastIteratedHeadId())
			ids := tr.VerifAttachedIds()
			// root first
			attS = append(attS, in.change(info[tr.RootId()]))
			for _, id := range ids {
				if id != tr.RootId() {
					attS = append(attS, in.change(info[id]))
				}
			}
		}
		var before []string
		if tr.Root() != nil {
			tr.IterateSkip(tr.RootId(), func(c *objecttree.Change) bool { before = append(before, c.Id); return true })
		}
		var bS []string
		chs := make([]*objecttree.Change, len(b))
		for i, nd := range b {
			chs[i] = mkChange(nd)
			bS = append(bS, in.change(info[nd.id]))
		}
		var wS []string
		if tr.Root() != nil {
			for _, p := range tr.VerifWaitList() {
				wS = append(wS, fmt.Sprintf("%d:%d", in.n(p[0]), in.n(p[1])))
			}
		}
		if len(wS) > 0 {
			r.Count("treelevel.stale-waitlist")
		}
		op := fmt.Sprintf("add %d %d | %s | %s | %s", rootN, lastN, strings.Join(attS, " "), strings.Join(bS, " "), strings.Join(wS, " "))
		trace = append(trace, op)
		var mode objecttree.Mode
		var added []*objecttree.Change
		panicked := ""
		func() {
			defer func() {
				if p := recover(); p != nil {
					panicked = fmt.Sprint(p)
				}
			}()
			mode, added = tr.Add(chs...)
		}()
		if panicked != "" {
			tlViolate(r, "C06", "treelevel.panic", "Tree.Add panicked: "+panicked, trace)
			return
		}
		var addedIds, it []string
		for _, a := range added {
			addedIds = append(addedIds, a.Id)
		}
		tr.IterateSkip(tr.RootId(), func(c *objecttree.Change) bool { it = append(it, c.Id); return true })
		impl := fmt.Sprintf("ok %s added=%s iter=%s heads=%s last=%d", modeName(mode), in.sortedList(addedIds), in.list(it), in.sortedList(tr.Heads()), in.n(tr.VerifLastIteratedHeadId()))
		if mode == objecttree.Nothing {
			// the real Add returns before updateHeads: heads / last are whatever they were
			impl = fmt.Sprintf("ok nothing added=- iter=%s heads=- last=%d", in.list(it), lastN)
		}
		r.Count("treelevel.mode." + modeName(mode))
		// direct oracles on the pure tree: Append ⇒ prefix; order ids sorted == iteration
		if mode == objecttree.Append && !isPrefix(before, it) {
			tlViolate(r, "C06", "treelevel.append.prefix", fmt.Sprintf("Tree.Add reported Append but %s is not a prefix of %s", join(before), join(it)), trace)
			return
		}
		// (only while the root has not moved: on non-honest DAGs - e.g. a redundant parent edge to an ancestor
		// of the new root - the order from a later root need not be the restriction of the order ids assigned
		// from the earlier root; see notes/areas/tree.md)
		byOrder := append([]string{}, it...)
		sort.SliceStable(byOrder, func(i, j int) bool { return tr.Get(byOrder[i]).OrderId < tr.Get(byOrder[j]).OrderId })
		if !rootMoved && !eqStr(byOrder, it) {
			tlViolate(r, "C06", "treelevel.orderid", fmt.Sprintf("sorting by order id gives %s, iteration is %s", join(byOrder), join(it)), trace)
			return
		}
		pos := map[string]int{}
		for i, id := range it {
			pos[id] = i
		}
		for _, id := range it[1:] {
			for _, p := range info[id].prevs {
				if pp, ok := pos[p]; ok && pp >= pos[id] {
					tlViolate(r, "C06", "treelevel.causal", fmt.Sprintf("%s iterated not after its parent %s in %s", id, p, join(it)), trace)
					return
				}
			}
		}
		// model correspondence (after the direct oracles, which never depend on it)
		traceCopy := append([]string{}, trace...)
		if !modelCheck(r, "C06", "treelevel.add", func() []string { return traceCopy }, op, impl) {
			r.Case(strings.Join(trace, ";"), len(nodes) >= 4)
			return
		}
		// reduce now and then
		if r.Chance(25) && tr.Root() != nil {
			pr := "0"
			if tr.VerifPossibleRoots() > 0 {
				pr = "1"
			}
			parts := []string{"reduce", fmt.Sprint(in.n(tr.RootId())), pr, in.change(info[tr.RootId()])}
			for _, id := range tr.VerifAttachedIds() {
				if id != tr.RootId() {
					parts = append(parts, in.change(info[id]))
				}
			}
			rop := strings.Join(parts, " ")
			trace = append(trace, rop)
			func() {
				defer func() {
					if p := recover(); p != nil {
						panicked = fmt.Sprint(p)
					}
				}()
				tr.VerifReduce()
			}()
			if panicked != "" {
				r.Count("treelevel.reduce.panic(adversarial-dag)")
				return
			}
			var it2 []string
			tr.IterateSkip(tr.RootId(), func(c *objecttree.Change) bool { it2 = append(it2, c.Id); return true })
			rimpl := fmt.Sprintf("ok %d %s", in.n(tr.RootId()), in.list(it2))
			r.Count("treelevel.reduce")
			if it2[0] != it[0] {
				r.Count("treelevel.reduce.moved")
				rootMoved = true
			}
			traceCopy2 := append([]string{}, trace...)
			if !modelCheck(r, "C06", "treelevel.reduce", func() []string { return traceCopy2 }, rop, rimpl) {
				r.Case(strings.Join(trace, ";"), len(nodes) >= 4)
				return
			}
		}
	}
	r.Case(strings.Join(trace, ";"), len(nodes) >= 4)
}

// treeLevelDeterminism: the property stated directly on the pure Tree - two trees fed the same change set in
// different arrival orders / batchings (each followed by a re-send of everything, so that both attach the same
// set) present the same sequence, respect causality, and carry order ids consistent with the sequence.
func treeLevelDeterminism(r *corr.Run, nodes []*tnode, info map[string]*chInfo) {
	build := func(variant int) (*objecttree.Tree, []string, string) {
		tr := &objecttree.Tree{}
		var trace []string
		rest := append([]*tnode{}, nodes[1:]...)
		switch variant {
		case 0: // ascending ids, one by one (what the fixed tests of the repo do)
			sort.Slice(rest, func(i, j int) bool { return rest[i].id < rest[j].id })
		case 1: // descending ids
			sort.Slice(rest, func(i, j int) bool { return rest[i].id > rest[j].id })
		default:
			r.Rand.Shuffle(len(rest), func(i, j int) { rest[i], rest[j] = rest[j], rest[i] })
		}
		batches := [][]*tnode{{nodes[0]}}
		for len(rest) > 0 {
			k := 1
			if variant >= 2 && r.Chance(50) {
				k = 1 + r.Intn(len(rest))
			}
			batches = append(batches, rest[:k])
			rest = rest[k:]
		}
		// re-send everything a few times (in the same style) so that whatever waited for a parent attaches
		for round := 0; round < len(nodes); round++ {
			batches = append(batches, nodes[1:])
		}
		for _, b := range batches {
			chs := make([]*objecttree.Change, len(b))
			ids := make([]string, len(b))
			for i, nd := range b {
				chs[i] = mkChange(nd)
				ids[i] = nd.id + "<" + join(nd.prevs)
			}
			var before []string
			if tr.Root() != nil {
				tr.IterateSkip(tr.RootId(), func(c *objecttree.Change) bool { before = append(before, c.Id); return true })
			}
			panicked := ""
			var mode objecttree.Mode
			func() {
				defer func() {
					if p := recover(); p != nil {
						panicked = fmt.Sprint(p)
					}
				}()
				mode, _ = tr.Add(chs...)
			}()
			trace = append(trace, fmt.Sprintf("variant%d add %s -> %s", variant, strings.Join(ids, " "), modeName(mode)))
			if panicked != "" {
				return tr, trace, "Tree.Add panicked: " + panicked
			}
			var it []string
			tr.IterateSkip(tr.RootId(), func(c *objecttree.Change) bool { it = append(it, c.Id); return true })
			if mode == objecttree.Append && !isPrefix(before, it) {
				return tr, trace, fmt.Sprintf("Tree.Add reported Append but %s is not a prefix of %s", join(before), join(it))
			}
			if mode == objecttree.Nothing && !eqStr(before, it) {
				return tr, trace, fmt.Sprintf("Tree.Add reported Nothing but the sequence changed from %s to %s", join(before), join(it))
			}
		}
		return tr, trace, ""
	}
	v1, v2 := r.Intn(3), 2
	t1, tr1, e1 := build(v1)
	t2, tr2, e2 := build(v2)
	trace := append(append([]string{}, tr1...), tr2...)
	if e1 != "" || e2 != "" {
		tlViolate(r, "C06", "treelevel.det.append", e1+e2, trace)
		return
	}
	iterOf := func(t *objecttree.Tree) []string {
		var it []string
		t.IterateSkip(t.RootId(), func(c *objecttree.Change) bool { it = append(it, c.Id); return true })
		return it
	}
	it1, it2 := iterOf(t1), iterOf(t2)
	r.Count("treelevel.det")
	for _, x := range []struct {
		t  *objecttree.Tree
		it []string
	}{{t1, it1}, {t2, it2}} {
		pos := map[string]int{}
		for i, id := range x.it {
			pos[id] = i
		}
		for _, id := range x.it[1:] {
			for _, p := range info[id].prevs {
				if pp, ok := pos[p]; !ok || pp >= pos[id] {
					tlViolate(r, "C06", "treelevel.det.causal", fmt.Sprintf("%s presented not after its parent %s in %s", id, p, join(x.it)), trace)
					return
				}
			}
		}
		byOrder := append([]string{}, x.it...)
		sort.SliceStable(byOrder, func(i, j int) bool { return x.t.Get(byOrder[i]).OrderId < x.t.Get(byOrder[j]).OrderId })
		if !eqStr(byOrder, x.it) {
			tlViolate(r, "C06", "treelevel.det.orderid", fmt.Sprintf("sorting by order id gives %s, the presented sequence is %s", join(byOrder), join(x.it)), trace)
			return
		}
		for i := 1; i < len(x.it); i++ {
			if x.t.Get(x.it[i-1]).OrderId == x.t.Get(x.it[i]).OrderId {
				tlViolate(r, "C06", "treelevel.det.orderid", fmt.Sprintf("%s and %s carry the same order id", x.it[i-1], x.it[i]), trace)
				return
			}
		}
	}
	if eqStr(sortedCopy(it1), sortedCopy(it2)) {
		r.Count("treelevel.det.equal-sets")
		if len(it1) >= 4 {
			r.Count("treelevel.det.equal-sets>=4")
		}
		if !eqStr(it1, it2) {
			tlViolate(r, "C06", "treelevel.det.order", fmt.Sprintf("the same change set is presented as %s after one arrival order and as %s after another", join(it1), join(it2)), trace)
			return
		}
	}
	r.Case(strings.Join(trace, ";"), len(nodes) >= 4)
}

// treeLevelClosedBatch: an honest-shaped DAG (every change has previous ids; its snapshot base is a snapshot among
// its ancestors, often a snapshot that is itself new) delivered as ONE addition in an arbitrary order inside the
// batch, with duplicates. The batch is closed (everything it needs is in it or already attached), so whatever the
// order inside it every change must end up attached (model: `add_confluent`), and two different orders must
// present the same sequence.
func treeLevelClosedBatch(r *corr.Run, nodes []*tnode, info map[string]*chInfo, protocol bool) {
	build := func(variant int) (*objecttree.Tree, []string, string) {
		tr := &objecttree.Tree{}
		var trace []string
		rest := append([]*tnode{}, nodes[1:]...)
		switch variant {
		case 0:
			sort.Slice(rest, func(i, j int) bool { return rest[i].id > rest[j].id })
		case 1: // children before parents: reverse creation order
			for i, j := 0, len(rest)-1; i < j; i, j = i+1, j-1 {
				rest[i], rest[j] = rest[j], rest[i]
			}
		default:
			r.Rand.Shuffle(len(rest), func(i, j int) { rest[i], rest[j] = rest[j], rest[i] })
		}
		for x := r.Intn(3); x > 0 && len(rest) > 0; x-- {
			rest = append(rest, rest[r.Intn(len(rest))])
		}
		for bi, b := range [][]*tnode{{nodes[0]}, rest} {
			chs := make([]*objecttree.Change, len(b))
			ids := make([]string, len(b))
			for i, nd := range b {
				chs[i] = mkChange(nd)
				ids[i] = fmt.Sprintf("%s<%s^%s", nd.id, join(nd.prevs), nd.snap)
			}
			var before []string
			if tr.Root() != nil {
				tr.IterateSkip(tr.RootId(), func(c *objecttree.Change) bool { before = append(before, c.Id); return true })
			}
			panicked := ""
			var mode objecttree.Mode
			func() {
				defer func() {
					if p := recover(); p != nil {
						panicked = fmt.Sprint(p)
					}
				}()
				mode, _ = tr.Add(chs...)
			}()
			trace = append(trace, fmt.Sprintf("variant%d add#%d %s -> %s", variant, bi, strings.Join(ids, " "), modeName(mode)))
			if panicked != "" {
				return tr, trace, "Tree.Add panicked: " + panicked
			}
			var it []string
			tr.IterateSkip(tr.RootId(), func(c *objecttree.Change) bool { it = append(it, c.Id); return true })
			if mode == objecttree.Append && !isPrefix(before, it) {
				return tr, trace, fmt.Sprintf("Tree.Add reported Append but %s is not a prefix of %s", join(before), join(it))
			}
		}
		return tr, trace, ""
	}
	v1 := r.Intn(3)
	t1, tr1, e1 := build(v1)
	t2, tr2, e2 := build(2)
	trace := append(append([]string{}, tr1...), tr2...)
	if e1 != "" || e2 != "" {
		tlViolate(r, "C06", "treelevel.closed.append", e1+e2, trace)
		return
	}
	r.Count("treelevel.closed")
	all := make([]string, len(nodes))
	newSnaps := 0
	for i, nd := range nodes {
		all[i] = nd.id
		if i > 0 && nd.snap != nodes[0].id {
			newSnaps++
		}
	}
	if newSnaps > 0 {
		r.Count("treelevel.closed.with-new-snapshot-base")
	}
	var its [][]string
	for _, t := range []*objecttree.Tree{t1, t2} {
		var it []string
		t.IterateSkip(t.RootId(), func(c *objecttree.Change) bool { it = append(it, c.Id); return true })
		its = append(its, it)
		if !eqStr(sortedCopy(it), sortedCopy(all)) {
			tlViolate(r, "C06", "treelevel.closed.missing", fmt.Sprintf("a closed batch was delivered in one addition, but only %s of %s is presented: the result depends on the order inside the batch", join(sortedCopy(it)), join(sortedCopy(all))), trace)
			return
		}
		pos := map[string]int{}
		for i, id := range it {
			pos[id] = i
		}
		for _, id := range it[1:] {
			for _, p := range info[id].prevs {
				if pp, ok := pos[p]; !ok || pp >= pos[id] {
					tlViolate(r, "C06", "treelevel.closed.causal", fmt.Sprintf("%s presented not after its parent %s in %s", id, p, join(it)), trace)
					return
				}
			}
		}
		byOrder := append([]string{}, it...)
		sort.SliceStable(byOrder, func(i, j int) bool { return t.Get(byOrder[i]).OrderId < t.Get(byOrder[j]).OrderId })
		if !eqStr(byOrder, it) {
			tlViolate(r, "C06", "treelevel.closed.orderid", fmt.Sprintf("sorting by order id gives %s, the presented sequence is %s", join(byOrder), join(it)), trace)
			return
		}
	}
	// reduce is only judged on DAGs the honest protocol can produce (previous ids = all heads of the creator's state,
	// snapshot base = its root): on other shapes reduceTree legitimately leaves unreachable changes attached
	if protocol {
		if msg := reduceOracle(r, t2, its[1]); msg != "" {
			tlViolate(r, "C06", "treelevel.closed.reduce", msg, append(trace, "reduce"))
			return
		}
	}
	if !eqStr(its[0], its[1]) {
		tlViolate(r, "C06", "treelevel.closed.order", fmt.Sprintf("the same closed batch is presented as %s after one inner order and as %s after another", join(its[0]), join(its[1])), trace)
		return
	}
	r.Case(strings.Join(trace, ";"), len(nodes) >= 4)
}

// genHonest: a DAG produced by the abstract honest protocol. Every new change is created by a "replica" whose state
// is an arbitrary ancestor-closed set of the changes so far: its previous ids are ALL heads of that state (an
// antichain), its snapshot base is the state's in-memory root - the newest snapshot common to the snapshot chains of
// all heads (what reduceTree computes), or an older snapshot on that root's chain (a replica that reduced less).
// Snapshots are frequent, so chains of snapshots and heads joining the chain at different depths are common.
func genHonest(r *corr.Run) ([]*tnode, map[string]*chInfo) {
	n := 3 + r.Intn(r.Pick(8, 11))
	alph := []string{"ab", "abc", "01"}[r.Intn(3)]
	used := map[string]bool{}
	fresh := func() string {
		for {
			l := 1 + r.Intn(3)
			b := make([]byte, l)
			for i := range b {
				b[i] = alph[r.Intn(len(alph))]
			}
			if !used[string(b)] {
				used[string(b)] = true
				return string(b)
			}
		}
	}
	nodes := []*tnode{{id: fresh(), isSnap: true}}
	by := map[string]*tnode{nodes[0].id: nodes[0]}
	chain := func(id string) []string { // id's snapshot chain, nearest first (starting at its base)
		var res []string
		for cur := by[id].snap; cur != ""; cur = by[cur].snap {
			res = append(res, cur)
		}
		return res
	}
	for i := 1; i < n; i++ {
		// the creator's state: an ancestor-closed set
		in := map[string]bool{nodes[0].id: true}
		var up func(id string)
		up = func(id string) {
			if in[id] {
				return
			}
			in[id] = true
			for _, p := range by[id].prevs {
				up(p)
			}
		}
		pct := []int{30, 60, 100}[r.Intn(3)]
		for _, nd := range nodes {
			if r.Chance(pct) {
				up(nd.id)
			}
		}
		hasChild := map[string]bool{}
		for id := range in {
			for _, p := range by[id].prevs {
				hasChild[p] = true
			}
		}
		var heads []string
		for _, nd := range nodes {
			if in[nd.id] && !hasChild[nd.id] {
				heads = append(heads, nd.id)
			}
		}
		// the state's root
		var root string
		if len(heads) == 1 && by[heads[0]].isSnap {
			root = heads[0]
		} else {
			common := chain(heads[0])
			for _, h := range heads[1:] {
				ch := idSet(chain(h))
				var keep []string
				for _, x := range common {
					if ch[x] {
						keep = append(keep, x)
					}
				}
				common = keep
			}
			root = common[0] // chains all end in the tree root
		}
		if r.Chance(25) { // a replica that has reduced less
			if c := append([]string{root}, chain(root)...); len(c) > 1 {
				root = c[r.Intn(len(c))]
			}
		}
		nd := &tnode{id: fresh(), prevs: heads, snap: root, isSnap: r.Chance(35)}
		nodes = append(nodes, nd)
		by[nd.id] = nd
	}
	info := map[string]*chInfo{}
	for _, nd := range nodes {
		info[nd.id] = nd.info()
	}
	return nodes, info
}

// reduceOracle: reducing a completely attached honest tree must keep a VIEW: everything that stays attached is
// presented (nothing is left attached but unreachable from the new root), every head stays in it, and the view
// presents the previous sequence restricted to what it holds.
func reduceOracle(r *corr.Run, t *objecttree.Tree, before []string) string {
	panicked := ""
	func() {
		defer func() {
			if p := recover(); p != nil {
				panicked = fmt.Sprint(p)
			}
		}()
		t.VerifReduce()
	}()
	if panicked != "" {
		return "reduceTree panicked: " + panicked
	}
	var it []string
	t.IterateSkip(t.RootId(), func(c *objecttree.Change) bool { it = append(it, c.Id); return true })
	r.Count("treelevel.closed.reduce")
	if len(it) < len(before) {
		r.Count("treelevel.closed.reduce.moved")
	}
	if len(t.Heads()) >= 3 {
		r.Count("treelevel.closed.reduce.heads>=3")
	}
	held := t.VerifAttachedIds()
	if !eqStr(sortedCopy(it), held) {
		return fmt.Sprintf("after reduce to %s the tree holds %s but presents %s", t.RootId(), join(held), join(sortedCopy(it)))
	}
	set := idSet(it)
	for _, h := range t.Heads() {
		if !set[h] {
			return fmt.Sprintf("after reduce to %s head %s is not presented (%s)", t.RootId(), h, join(it))
		}
	}
	if rs := restrict(before, set); !eqStr(rs, it) {
		return fmt.Sprintf("after reduce to %s the tree presents %s, the previous sequence restricted to the view is %s", t.RootId(), join(it), join(rs))
	}
	return ""
}
