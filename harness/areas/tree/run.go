package tree

import (
	"fmt"
	"os"
	"sort"
	"time"

	"verifharness/internal/corr"
)

func init() { corr.RegisterArea("tree", Run) }

// oneHistory runs one honest multi-replica history with all oracles.
func oneHistory(r *corr.Run, nrep, steps int, focus string) {
	w, err := newWorld(r, nrep)
	if err != nil {
		r.Violate("C06", "", "setup", "creating a tree storage and building the tree from it failed: "+err.Error(), nil)
		return
	}
	defer w.close()
	defer func() {
		if p := recover(); p != nil {
			w.logf("PANIC %v", p)
			prop := "C06"
			if focusProp != "" {
				prop = focusProp // a crash on an honest history fails whichever property is being checked
			}
			w.violate(prop, "panic", fmt.Sprintf("real code panicked on an honest history: %v", p))
		}
	}()
	snapPct := []int{0, 8, 20, 35}[r.Intn(4)]
	w.refusePct = 12
	// guard-directed opening (about half of the histories): every replica adds concurrently on the same heads
	// (>= 3 sibling changes with 3+ replicas, arriving at each replica in a different order), the head updates
	// are delivered, then every replica adds locally on top of the merge (several heads, parents = all heads)
	if r.Chance(55) {
		for round := 0; round < 1+r.Intn(2) && !w.failed; round++ {
			for _, rep := range w.reps {
				if !w.failed {
					w.localAdd(rep, false)
					if r.Chance(40) && !w.failed {
						w.localAdd(rep, false) // a branch of depth 2
					}
				}
			}
			// guard-directed: one replica first receives the concurrent siblings with the greater ids, then the one
			// with the smallest id meets a refusing validator (the rolled-back child is not among the last siblings)
			if len(w.reps) >= 3 && r.Chance(60) && !w.failed {
				a := w.reps[r.Intn(len(w.reps))]
				var mine []message
				var restq []message
				for _, m := range w.queue {
					if m.to == a.idx && len(m.changes) > 0 {
						mine = append(mine, m)
					} else {
						restq = append(restq, m)
					}
				}
				if len(mine) >= 2 {
					sort.Slice(mine, func(i, j int) bool { return mine[i].changes[0].Id > mine[j].changes[0].Id })
					w.queue = append(restq, mine[len(mine)-1])
					for _, m := range mine[:len(mine)-1] {
						if !w.failed {
							w.apply(a, m, m.kind)
						}
					}
					if !w.failed {
						w.applyRefused(a, mine[len(mine)-1])
						r.Count("refuse.guard-directed")
					}
				}
			}
			// many concurrent siblings are arriving now: refused batches hit parents with several attached children
			w.refusePct = 35
			for k := 0; k < 200 && len(w.queue) > 0 && !w.failed; k++ {
				w.deliverOne()
			}
			w.refusePct = 12
			if !w.failed && r.Chance(50) {
				w.crossCheck()
			}
		}
		r.Count("history.opening.burst")
		// guard-directed for the loader: right after the merge adds, a full sync with a small limit (cuts between
		// a merge change and its parents) and one whose responder keeps changing while it streams
		if !w.failed && len(w.reps) >= 2 {
			a, b := w.reps[r.Intn(len(w.reps))], w.reps[r.Intn(len(w.reps))]
			if a != b {
				if r.Chance(50) {
					w.fullSync(a, b, []int{1, 1, 250, 450}[r.Intn(4)])
				} else {
					w.interleavedSync(a, b, []int{1, 300, 1 << 30}[r.Intn(3)])
				}
			}
		}
	}
	if len(w.reps) >= 3 && !w.failed && r.Chance(map[bool]int{true: 60, false: 25}[focus == "C09"]) {
		w.staleBranch()
	}
	for step := 0; step < steps && !w.failed && r.TimeLeft(); step++ {
		rep := w.reps[r.Intn(len(w.reps))]
		k := r.Intn(100)
		switch {
		case k < 34:
			w.localAdd(rep, r.Chance(snapPct))
		case k < 62:
			w.deliverOne()
		case k < 66:
			other := w.reps[r.Intn(len(w.reps))]
			if other != rep {
				w.fullSync(other, rep, w.pickLimit(other))
			}
		case k < 70:
			other := w.reps[r.Intn(len(w.reps))]
			if other != rep {
				w.interleavedSync(other, rep, w.pickLimit(other))
			}
		case k < 77:
			other := w.reps[r.Intn(len(w.reps))]
			if other != rep {
				w.scramble(other, rep)
			}
		case k < 83:
			w.reopenReplica(rep)
		case k < 90:
			w.history(rep)
		case k < 96:
			other := w.reps[r.Intn(len(w.reps))]
			if other != rep {
				w.loaderSweep(other, rep, 3, 1)
			}
		default:
			w.crossCheck()
		}
	}
	if w.failed {
		return
	}
	// settle: everybody syncs with everybody (twice), then all replicas hold one set
	for round := 0; round < 2 && !w.failed; round++ {
		for _, a := range w.reps {
			for _, b := range w.reps {
				if a != b && !w.failed {
					if round == 0 && r.Chance(map[bool]int{true: 60, false: 25}[focus == "C09"]) {
						w.loaderSweep(a, b, r.Pick(4, 8), 1)
					}
					if !w.failed {
						w.fullSync(a, b, w.pickLimit(a))
					}
				}
			}
		}
	}
	if w.failed {
		return
	}
	w.crossCheck()
	first := sortedCopy(storedIds(w.stored(w.reps[0])))
	for _, rep := range w.reps[1:] {
		if !eqStr(first, sortedCopy(storedIds(w.stored(rep)))) {
			w.violate("C09", "settle", fmt.Sprintf("after all-pairs full sync rep0 and rep%d hold different sets", rep.idx))
		}
	}
	for _, rep := range w.reps {
		if !w.failed {
			w.reopenReplica(rep)
			w.history(rep)
		}
	}
	n := len(first)
	r.Case(fmt.Sprint(w.trace), n >= 6)
	r.CountN("changes.total", n)
	switch {
	case n < 10:
		r.Count("history.size.<10")
	case n < 40:
		r.Count("history.size.10-39")
	case n < 120:
		r.Count("history.size.40-119")
	default:
		r.Count("history.size.120+")
	}
	for _, rep := range w.reps {
		if rep.tree.Root().Id != w.rootId {
			r.Count("final.reduced")
		} else {
			r.Count("final.unreduced")
		}
	}
	if len(w.trace) > 0 {
		t := w.trace
		if len(t) > 12 {
			t = t[:12]
		}
		r.Sample(map[string]any{"history_prefix": t, "changes": n, "replicas": nrep})
	}
}

func Run(r *corr.Run) {
	focus := os.Getenv("VERIF_PROPERTY")
	r.SetRule("one case = one honest multi-replica history on the real objecttree over real any-store storage (local adds with parents = heads and snapshot = current root, snapshots, head updates delivered reordered/duplicated/dropped, full syncs through the real load iterator with guard-directed batch limits, scrambled re-partitioned transfers, close+reopen, history trees), every step checked by the direct C06/C09 oracles; non-trivial = at least 6 changes; distinct = distinct op traces")
	// pure objecttree.Tree stream first (fast, no storage): arbitrary DAGs and batches against the model
	// the pure-Tree stream only speaks about C06: a small share when the C09 check runs
	treeUntil := time.Now().Add(time.Until(r.Deadline) / 5)
	if focus == "C09" {
		treeUntil = time.Now().Add(time.Until(r.Deadline) / 12)
	}
	if os.Getenv("VERIF_TREE_STREAMS") == "history" { // development switch: only the history simulator
		treeUntil = time.Now()
	}
	resetCorrState()
	focusProp, otherCount = "", 0
	if focus == "C06" || focus == "C09" {
		focusProp = focus
	}
	for k := 0; time.Now().Before(treeUntil) && k < r.Pick(6000, 200000); k++ {
		treeLevelCase(r)
		if violations(r) >= 3 {
			return // failing inputs found; a disagreement alone never stops the search
		}
	}
	for i := 0; r.TimeLeft(); i++ {
		nrep := 2 + r.Intn(3)
		steps := []int{8, 16, 30, 30, 60, 120}[r.Intn(6)]
		if !r.Quick() && r.Chance(20) {
			steps = 300
		}
		oneHistory(r, nrep, steps, focus)
		if violations(r) >= 3 {
			return
		}
		if i+1 >= r.Pick(400, 100000) {
			break
		}
	}
}
