// Package tree drives the REAL objecttree (testable, non-verifying builder; real any-store storage in a
// temp dir) through honest multi-replica histories and checks C06 (order is a function of the change
// set) and C09 (full-sync batches) directly on its observations, and against the Lean model.
package tree

import (
	"context"
	"fmt"
	"os"
	"path/filepath"
	"sort"
	"strings"

	anystore "github.com/anyproto/any-store"

	"github.com/anyproto/any-sync/commonspace/object/accountdata"
	"github.com/anyproto/any-sync/commonspace/object/acl/list"
	"github.com/anyproto/any-sync/commonspace/object/tree/objecttree"
	"github.com/anyproto/any-sync/commonspace/object/tree/treechangeproto"
	"github.com/anyproto/any-sync/util/crypto"

	"verifharness/internal/corr"
)

// chInfo is what the harness knows about one change (learned from the real code's outputs).
type chInfo struct {
	id     string
	prevs  []string
	snap   string
	isSnap bool
	size   int
	raw    *treechangeproto.RawTreeChangeWithId
}

type replica struct {
	idx    int
	dir    string
	db     anystore.DB
	st     objecttree.Storage
	tree   objecttree.ObjectTree
	reopen int
	cache  []objecttree.StorageChange // stored list, dropped on every mutation
}

type message struct {
	from, to int
	changes  []*treechangeproto.RawTreeChangeWithId
	heads    []string
	path     []string
	kind     string
}

type world struct {
	r      *corr.Run
	ctx    context.Context
	base   string
	acl    list.AclList
	keys   *accountdata.AccountKeys
	root   *treechangeproto.RawTreeChangeWithId
	rootId string
	reps   []*replica
	info   map[string]*chInfo
	ts     int64
	trace  []string
	queue  []message
	idAlph string
	idLen  int
	nextSn bool // the next locally built change is a snapshot (read by idGen only for bookkeeping)
	failed bool
	refusePct int // chance that a delivery meets a refusing validator
}

type randReader struct{ r *corr.Run }

func (rr randReader) Read(p []byte) (int, error) {
	for i := range p {
		p[i] = byte(rr.r.Intn(256))
	}
	return len(p), nil
}

func newWorld(r *corr.Run, nrep int) (*world, error) {
	base, err := os.MkdirTemp("", "verif-tree-*")
	if err != nil {
		return nil, err
	}
	w := &world{r: r, ctx: context.Background(), base: base, info: map[string]*chInfo{}}
	peerKey, _, err := crypto.GenerateEd25519Key(randReader{r})
	if err != nil {
		return nil, err
	}
	signKey, _, err := crypto.GenerateEd25519Key(randReader{r})
	if err != nil {
		return nil, err
	}
	w.keys = accountdata.New(peerKey, signKey)
	w.acl, err = list.NewInMemoryDerivedAcl("spaceId", w.keys)
	if err != nil {
		return nil, err
	}
	// id alphabet: small alphabets and short ids give many prefix-related / adjacent ids, which is what
	// the sorted-children logic has to get right
	switch r.Intn(3) {
	case 0:
		w.idAlph, w.idLen = "ab", 3
	case 1:
		w.idAlph, w.idLen = "abcdefgh", 2
	default:
		w.idAlph, w.idLen = "0123456789abcdefghijklmnopqrstuvwxyz", 4
	}
	w.rootId = w.freshId()
	w.root = objecttree.NewMockChangeCreator(nil).CreateRoot(w.rootId, w.acl.Head().Id)
	w.info[w.rootId] = &chInfo{id: w.rootId, isSnap: true, size: len(w.root.RawChange), raw: w.root}
	for i := 0; i < nrep; i++ {
		if _, err := w.addReplica(); err != nil {
			w.close()
			return nil, err
		}
	}
	return w, nil
}

func (w *world) freshId() string {
	for try := 0; ; try++ {
		n := 1 + w.r.Intn(w.idLen)
		if try > 20 {
			n = w.idLen + 1 + try/20
		}
		b := make([]byte, n)
		for i := range b {
			b[i] = w.idAlph[w.r.Intn(len(w.idAlph))]
		}
		id := string(b)
		if _, ok := w.info[id]; !ok && id != w.rootId {
			return id
		}
	}
}

func (w *world) addReplica() (*replica, error) {
	rep := &replica{idx: len(w.reps)}
	rep.dir = filepath.Join(w.base, fmt.Sprintf("rep%d", rep.idx))
	if err := os.MkdirAll(rep.dir, 0o755); err != nil {
		return nil, err
	}
	db, err := anystore.Open(w.ctx, filepath.Join(rep.dir, "db"), nil)
	if err != nil {
		return nil, err
	}
	rep.db = db
	rep.st, err = objecttree.VerifCreateStorage(w.ctx, w.root, db)
	if err != nil {
		return nil, err
	}
	rep.tree, err = objecttree.VerifBuildTree(rep.st, w.acl, w.idGen)
	if err != nil {
		return nil, err
	}
	w.reps = append(w.reps, rep)
	return rep, nil
}

func (w *world) idGen(c objecttree.BuilderContent) string { return w.freshId() }

func (w *world) close() {
	for _, rep := range w.reps {
		if rep.tree != nil {
			rep.tree.Close()
		}
		if rep.db != nil {
			rep.db.Close()
		}
	}
	os.RemoveAll(w.base)
}

func (w *world) logf(format string, a ...any) {
	w.trace = append(w.trace, fmt.Sprintf(format, a...))
}

// ops returns the trace (bounded) for issue reports.
func (w *world) ops() []string {
	t := w.trace
	if len(t) > 400 {
		t = append([]string{fmt.Sprintf("… %d earlier ops elided …", len(t)-400)}, t[len(t)-400:]...)
	}
	return append([]string{}, t...)
}

// ---------------------------------------------------------------------------------------------
// observations

func iterIds(t objecttree.ReadableObjectTree) []string {
	var res []string
	t.IterateRoot(nil, func(c *objecttree.Change) bool {
		res = append(res, c.Id)
		return true
	})
	return res
}

func (w *world) storedFrom(st objecttree.Storage, order string) []objecttree.StorageChange {
	var res []objecttree.StorageChange
	err := st.GetAfterOrder(w.ctx, order, func(ctx context.Context, c objecttree.StorageChange) (bool, error) {
		c.RawChange = append([]byte(nil), c.RawChange...)
		res = append(res, c)
		return true, nil
	})
	if err != nil {
		w.r.Fatal("GetAfterOrder: " + err.Error())
	}
	return res
}

func (w *world) stored(rep *replica) []objecttree.StorageChange {
	if rep.cache == nil {
		rep.cache = w.storedFrom(rep.st, "")
	}
	return rep.cache
}

func storedIds(s []objecttree.StorageChange) []string {
	res := make([]string, len(s))
	for i, c := range s {
		res[i] = c.Id
	}
	return res
}

func idSet(ids []string) map[string]bool {
	m := make(map[string]bool, len(ids))
	for _, id := range ids {
		m[id] = true
	}
	return m
}

func sortedCopy(ids []string) []string {
	c := append([]string{}, ids...)
	sort.Strings(c)
	return c
}

func join(ids []string) string {
	if len(ids) == 0 {
		return "-"
	}
	return strings.Join(ids, ",")
}

func eqStr(a, b []string) bool {
	if len(a) != len(b) {
		return false
	}
	for i := range a {
		if a[i] != b[i] {
			return false
		}
	}
	return true
}

func isPrefix(p, l []string) bool {
	if len(p) > len(l) {
		return false
	}
	for i := range p {
		if p[i] != l[i] {
			return false
		}
	}
	return true
}

func restrict(l []string, keep map[string]bool) []string {
	var res []string
	for _, x := range l {
		if keep[x] {
			res = append(res, x)
		}
	}
	return res
}

// learn records change facts from storage records (prev ids, snapshot id, size).
func (w *world) learn(sc objecttree.StorageChange, isSnap *bool) {
	ci, ok := w.info[sc.Id]
	if !ok {
		ci = &chInfo{id: sc.Id}
		w.info[sc.Id] = ci
	}
	ci.prevs = append([]string{}, sc.PrevIds...)
	ci.snap = sc.SnapshotId
	ci.size = len(sc.RawChange)
	ci.raw = &treechangeproto.RawTreeChangeWithId{RawChange: append([]byte(nil), sc.RawChange...), Id: sc.Id}
	if isSnap != nil {
		ci.isSnap = *isSnap
	}
}

// refRpo is the harness' own statement of "the order determined by the set": depth-first from root,
// children in increasing id order, reverse post-order; only changes whose parents are all included
// (the set is expected to be ancestor-closed above root) take part.
func (w *world) refRpo(root string, set map[string]bool) []string {
	children := map[string][]string{}
	for id := range set {
		ci := w.info[id]
		if ci == nil {
			continue
		}
		for _, p := range ci.prevs {
			if set[p] {
				children[p] = append(children[p], id)
			}
		}
	}
	for k := range children {
		sort.Strings(children[k])
	}
	visited := map[string]bool{}
	var post []string
	var visit func(x string)
	visit = func(x string) {
		visited[x] = true
		ch := children[x]
		for i := len(ch) - 1; i >= 0; i-- {
			if !visited[ch[i]] {
				visit(ch[i])
			}
		}
		post = append(post, x)
	}
	if set[root] {
		visit(root)
	}
	res := make([]string, len(post))
	for i, x := range post {
		res[len(post)-1-i] = x
	}
	return res
}

// descendantsClosure: the subset of `set` attachable from root (all parents attachable), root included.
func (w *world) attachable(root string, set map[string]bool) map[string]bool {
	res := map[string]bool{root: true}
	changed := true
	for changed {
		changed = false
		for id := range set {
			if res[id] {
				continue
			}
			ci := w.info[id]
			if ci == nil || len(ci.prevs) == 0 {
				continue
			}
			ok := true
			for _, p := range ci.prevs {
				if !res[p] {
					ok = false
					break
				}
			}
			if ok {
				res[id] = true
				changed = true
			}
		}
	}
	return res
}
