package tree

import (
	"fmt"
	"os"
	"path/filepath"
	"sort"

	anystore "github.com/anyproto/any-store"

	"github.com/anyproto/any-sync/commonspace/object/tree/objecttree"
	"github.com/anyproto/any-sync/commonspace/object/tree/synctree/response"
	"github.com/anyproto/any-sync/commonspace/object/tree/treechangeproto"
	"github.com/anyproto/any-sync/util/slice"
)

func modeName(m objecttree.Mode) string {
	switch m {
	case objecttree.Append:
		return "append"
	case objecttree.Rebuild:
		return "rebuild"
	case objecttree.Nothing:
		return "nothing"
	}
	return fmt.Sprintf("mode%d", int(m))
}

// focusProp is the property whose check is running (VERIF_PROPERTY; "" = both). A violation of the OTHER
// property of this area is recorded (at most otherCap of them) but does not end the history: the check of the
// focus property ignores it, and its own oracles must still get the chance to find a failing input on the
// same (real) state. Fatal conditions (panic, errors of the real code) always end the history.
var (
	focusProp  string
	otherCount int
)

const otherCap = 3

func fatalStream(stream string) bool {
	switch stream {
	case "panic", "add.error", "reopen.error", "loader.error", "history.error", "setup":
		return true
	}
	return false
}

func (w *world) violate(prop, stream, desc string) {
	if focusProp != "" && prop != focusProp && !fatalStream(stream) {
		if otherCount < otherCap {
			otherCount++
			w.r.Violate(prop, "", stream, desc, w.ops())
		}
		w.r.Count("violation.other-property." + stream)
		return
	}
	w.failed = true
	w.r.Violate(prop, "", stream, desc, w.ops())
}

// ---------------------------------------------------------------------------------------------
// C06 per-replica oracle, run after every operation that touched the replica

func (w *world) checkReplica(rep *replica, what string) {
	it := iterIds(rep.tree)
	st := w.stored(rep)
	sids := storedIds(st)
	pos := map[string]int{}
	// (b) stored order: unique ids, strictly increasing order ids, every parent stored earlier
	for i, c := range st {
		if _, dup := pos[c.Id]; dup {
			w.violate("C06", "stored.unique", fmt.Sprintf("%s: rep%d stores %s twice", what, rep.idx, c.Id))
			return
		}
		pos[c.Id] = i
		if i > 0 && !(st[i-1].OrderId < c.OrderId) {
			w.violate("C06", "stored.orderid", fmt.Sprintf("%s: rep%d order ids not strictly increasing at %s (%q then %q)", what, rep.idx, c.Id, st[i-1].OrderId, c.OrderId))
			return
		}
		if _, known := w.info[c.Id]; !known {
			w.learn(c, nil)
		}
	}
	for _, c := range st {
		for _, p := range c.PrevIds {
			pp, ok := pos[p]
			if !ok {
				w.violate("C06", "stored.closed", fmt.Sprintf("%s: rep%d stores %s without its parent %s", what, rep.idx, c.Id, p))
				return
			}
			if pp >= pos[c.Id] {
				w.violate("C06", "stored.causal", fmt.Sprintf("%s: rep%d stores %s before its parent %s", what, rep.idx, c.Id, p))
				return
			}
		}
	}
	// (a) iteration: starts at the tree root, no duplicates, every change after all its in-memory parents,
	// and every non-root change has all parents in memory (the view is closed below its root)
	ipos := map[string]int{}
	for i, id := range it {
		if _, dup := ipos[id]; dup {
			w.violate("C06", "iter.unique", fmt.Sprintf("%s: rep%d iterates %s twice", what, rep.idx, id))
			return
		}
		ipos[id] = i
	}
	if len(it) == 0 || it[0] != rep.tree.Root().Id {
		w.violate("C06", "iter.root", fmt.Sprintf("%s: rep%d iteration does not start at the root", what, rep.idx))
		return
	}
	for _, id := range it[1:] {
		ci := w.info[id]
		if ci == nil {
			w.violate("C06", "iter.unknown", fmt.Sprintf("%s: rep%d iterates %s which it does not store", what, rep.idx, id))
			return
		}
		for _, p := range ci.prevs {
			pp, ok := ipos[p]
			if !ok || pp >= ipos[id] {
				w.violate("C06", "iter.causal", fmt.Sprintf("%s: rep%d iterates %s not after its parent %s", what, rep.idx, id, p))
				return
			}
		}
	}
	if rep.tree.Len() != len(it) {
		w.violate("C06", "iter.len", fmt.Sprintf("%s: rep%d holds %d changes in memory but iterates %d", what, rep.idx, rep.tree.Len(), len(it)))
		return
	}
	// (c) the in-memory view is the stored order restricted to what the view contains
	if r := restrict(sids, ipos2set(ipos)); !eqStr(r, it) {
		w.violate("C06", "iter.vs.stored", fmt.Sprintf("%s: rep%d iteration %s differs from stored order restricted to memory %s", what, rep.idx, join(it), join(r)))
		return
	}
	if it[0] != w.rootId {
		w.r.Count("view.reduced")
	} else {
		w.r.Count("view.unreduced")
	}
	// heads announced by the tree == maximal elements of the in-memory view
	var hs []string
	hasChild := map[string]bool{}
	for _, id := range it {
		for _, p := range w.info[id].prevs {
			hasChild[p] = true
		}
	}
	for _, id := range it {
		if !hasChild[id] {
			hs = append(hs, id)
		}
	}
	if !eqStr(sortedCopy(hs), sortedCopy(rep.tree.Heads())) {
		w.violate("C06", "heads", fmt.Sprintf("%s: rep%d heads %s but maximal elements are %s", what, rep.idx, join(sortedCopy(rep.tree.Heads())), join(sortedCopy(hs))))
		return
	}
	// model correspondence: the real iteration / stored order == the model's order of the same set
	w.corrReplica(rep, what)
}

func ipos2set(m map[string]int) map[string]bool {
	s := make(map[string]bool, len(m))
	for k := range m {
		s[k] = true
	}
	return s
}

// checkMode: Append ⇒ the previously presented sequence is a prefix of the new one; Nothing ⇒ unchanged.
func (w *world) checkMode(rep *replica, what string, before []string, mode objecttree.Mode) {
	after := iterIds(rep.tree)
	w.r.Count("mode." + modeName(mode))
	switch mode {
	case objecttree.Append:
		if !isPrefix(before, after) {
			w.violate("C06", "append.prefix", fmt.Sprintf("%s: rep%d reported Append but previous sequence %s is not a prefix of %s", what, rep.idx, join(before), join(after)))
		} else if len(after) > len(before) {
			w.r.Count("append.grew")
		}
	case objecttree.Nothing:
		if !eqStr(before, after) {
			w.violate("C06", "nothing.changed", fmt.Sprintf("%s: rep%d reported Nothing but the sequence changed from %s to %s", what, rep.idx, join(before), join(after)))
		}
	}
}

// ---------------------------------------------------------------------------------------------
// operations

func (w *world) localAdd(rep *replica, snapshot bool) {
	w.ts++
	n := w.r.Intn(40)
	if w.r.Chance(15) {
		n = 100 + w.r.Intn(200)
	}
	data := make([]byte, n)
	for i := range data {
		data[i] = byte(w.r.Intn(256))
	}
	before := iterIds(rep.tree)
	prevHeads := sortedCopy(rep.tree.Heads())
	prevRoot := rep.tree.Root().Id
	rep.cache = nil
	rep.tree.Lock()
	res, err := rep.tree.AddContent(w.ctx, objecttree.SignableChangeContent{
		Data: data, Key: w.keys.SignKey, IsSnapshot: snapshot, Timestamp: w.ts, DataType: "t",
	})
	rep.tree.Unlock()
	if err != nil {
		w.r.Fatal("AddContent: " + err.Error())
	}
	sc := res.Added[0]
	w.learn(sc, &snapshot)
	w.logf("local rep%d id=%s snapshot=%v prevs=%s snap=%s size=%d mode=%s", rep.idx, sc.Id, snapshot, join(sc.PrevIds), sc.SnapshotId, len(sc.RawChange), modeName(res.Mode))
	w.r.Count("op.local")
	if snapshot {
		w.r.Count("op.local.snapshot")
	}
	// honest-history facts the other oracles rely on
	if !eqStr(sortedCopy(sc.PrevIds), prevHeads) || sc.SnapshotId != prevRoot {
		w.violate("C06", "local.shape", fmt.Sprintf("local change %s has prevs %s snap %s, expected heads %s and root %s", sc.Id, join(sc.PrevIds), sc.SnapshotId, join(prevHeads), prevRoot))
	}
	w.checkMode(rep, "local add "+sc.Id, before, res.Mode)
	w.checkReplica(rep, "local add "+sc.Id)
	// guard-directed for the loader: a locally created MERGE (several parents) is where the order id of the new
	// change is derived from the last iterated head - answer a full sync right away with a limit that cuts
	// between the merge change and its parents
	if len(prevHeads) >= 2 && !w.failed && len(w.reps) >= 2 && w.r.Chance(map[bool]int{true: 35, false: 10}[focusProp == "C09"]) {
		other := w.reps[w.r.Intn(len(w.reps))]
		if other != rep {
			w.r.Count("op.fullsync.after-merge")
			w.fullSync(rep, other, []int{1, 1, len(sc.RawChange) + 1, 2*len(sc.RawChange) + 1}[w.r.Intn(4)])
			if w.failed {
				return
			}
		}
	}
	// broadcast a head update
	path, _ := rep.tree.SnapshotPath()
	for _, other := range w.reps {
		if other != rep && w.r.Chance(70) {
			w.queue = append(w.queue, message{from: rep.idx, to: other.idx, kind: "headupdate",
				changes: res.RawChanges(), heads: append([]string{}, res.Heads...), path: append([]string{}, path...)})
		}
	}
}

func hasHeads(t objecttree.ObjectTree, heads []string) bool {
	return slice.UnsortedEquals(t.Heads(), heads) || t.HasChanges(heads...)
}

// apply is synctree.AddRawChangesFromPeer without the networking: skip when the announced heads are
// already held, else AddRawChanges.
func (w *world) apply(rep *replica, m message, what string) (objecttree.AddResult, bool) {
	ids := make([]string, len(m.changes))
	for i, c := range m.changes {
		ids[i] = c.Id
	}
	if hasHeads(rep.tree, m.heads) {
		w.logf("%s rep%d<-rep%d SKIP heads=%s changes=%s", what, rep.idx, m.from, join(m.heads), join(ids))
		w.r.Count("apply.skipped")
		// skip_is_safe: everything in the skipped batch is already stored
		have := idSet(storedIds(w.stored(rep)))
		for _, id := range ids {
			if !have[id] {
				w.violate("C09", "skip.safe", fmt.Sprintf("%s: rep%d skipped a batch announcing heads %s it holds, but lacks %s", what, rep.idx, join(m.heads), id))
			}
		}
		return objecttree.AddResult{Mode: objecttree.Nothing}, false
	}
	before := iterIds(rep.tree)
	rootBefore := rep.tree.Root().Id
	prePath, _ := rep.tree.SnapshotPath()
	pre := addRawPre{root: rootBefore, att: objecttree.VerifTree(rep.tree).VerifAttachedIds(), stored: storedIds(w.stored(rep)), path: append([]string{}, prePath...)}
	rep.cache = nil
	rep.tree.Lock()
	res, err := rep.tree.AddRawChanges(w.ctx, objecttree.RawChangesPayload{NewHeads: m.heads, RawChanges: m.changes, SnapshotPath: m.path})
	rep.tree.Unlock()
	if err != nil {
		w.logf("%s rep%d<-rep%d heads=%s path=%s changes=%s ERR %v", what, rep.idx, m.from, join(m.heads), join(m.path), join(ids), err)
		prop := "C06"
		if what == "response" {
			prop = "C09" // applying the batches of an answer must attach them
		}
		w.violate(prop, "add.error", fmt.Sprintf("%s: AddRawChanges on rep%d failed for honest input: %v", what, rep.idx, err))
		return res, false
	}
	var added []string
	for _, a := range res.Added {
		added = append(added, a.Id)
	}
	w.logf("%s rep%d<-rep%d heads=%s path=%s changes=%s mode=%s added=%s root=%s", what, rep.idx, m.from, join(m.heads), join(m.path), join(ids), modeName(res.Mode), join(added), rep.tree.Root().Id)
	w.r.Count("apply." + what)
	known := true
	for _, id := range ids {
		if w.info[id] == nil {
			known = false
		}
	}
	if known {
		w.corrAddRaw(pre, ids, m.path, added, what)
	}
	if newRoot := rep.tree.Root().Id; newRoot != rootBefore {
		back := false
		for _, x := range w.snapChain(rootBefore)[1:] {
			if x == newRoot {
				back = true
			}
		}
		if back {
			w.r.Count("root.moved-back")
		} else {
			w.r.Count("root.moved-forward")
		}
	}
	// the snapshot path the tree announces (requests, head updates, batches) is its real snapshot chain
	if p, err := rep.tree.SnapshotPath(); err != nil || !eqStr(p, w.snapChain(rep.tree.Root().Id)) {
		w.violate("C09", "snapshot.path", fmt.Sprintf("%s: rep%d (root %s) announces snapshot path %s, its snapshot chain is %s (err=%v)", what, rep.idx, rep.tree.Root().Id, join(p), join(w.snapChain(rep.tree.Root().Id)), err))
	}
	w.checkMode(rep, what, before, res.Mode)
	w.checkReplica(rep, what)
	return res, true
}

// applyRefused delivers a batch while the receiver's validator refuses one of its changes: AddRawChanges must fail
// and leave the tree exactly as it was (rollback) - same presented sequence, heads, root, attached set, storage - and
// the usual view/storage oracles must keep holding afterwards, also across a reopen.
func (w *world) applyRefused(rep *replica, m message) {
	if hasHeads(rep.tree, m.heads) {
		return
	}
	var cand []string
	ids := make([]string, len(m.changes))
	for i, c := range m.changes {
		ids[i] = c.Id
		if !rep.tree.HasChanges(c.Id) {
			cand = append(cand, c.Id)
		}
	}
	if len(cand) == 0 {
		return
	}
	refused := cand[w.r.Intn(len(cand))]
	before := iterIds(rep.tree)
	headsBefore := sortedCopy(rep.tree.Heads())
	rootBefore := rep.tree.Root().Id
	attBefore := objecttree.VerifTree(rep.tree).VerifAttachedIds()
	storedBefore := storedIds(w.stored(rep))
	objecttree.VerifSetRefuse(rep.tree, func(ch *objecttree.Change) bool { return ch.Id == refused })
	rep.cache = nil
	rep.tree.Lock()
	res, err := rep.tree.AddRawChanges(w.ctx, objecttree.RawChangesPayload{NewHeads: m.heads, RawChanges: m.changes, SnapshotPath: m.path})
	rep.tree.Unlock()
	objecttree.VerifSetRefuse(rep.tree, nil)
	what := fmt.Sprintf("refused(%s) %s", refused, m.kind)
	if err == nil {
		// the marked change was not among the newly attached ones (unattachable yet, or the rebuild path, which
		// validates the whole tree): an ordinary addition
		var added []string
		for _, a := range res.Added {
			added = append(added, a.Id)
		}
		w.logf("%s rep%d<-rep%d heads=%s path=%s changes=%s NOT-REFUSED mode=%s added=%s root=%s", what, rep.idx, m.from, join(m.heads), join(m.path), join(ids), modeName(res.Mode), join(added), rep.tree.Root().Id)
		w.r.Count("refuse.not-triggered")
		w.checkMode(rep, what, before, res.Mode)
		w.checkReplica(rep, what)
		return
	}
	w.logf("%s rep%d<-rep%d heads=%s path=%s changes=%s REFUSED (%v)", what, rep.idx, m.from, join(m.heads), join(m.path), join(ids), err)
	w.r.Count("refuse.rolled-back")
	after := iterIds(rep.tree)
	if !eqStr(before, after) || rootBefore != rep.tree.Root().Id || !eqStr(headsBefore, sortedCopy(rep.tree.Heads())) ||
		!eqStr(attBefore, objecttree.VerifTree(rep.tree).VerifAttachedIds()) {
		w.violate("C06", "refuse.rollback", fmt.Sprintf("%s: rep%d refused the batch but its view changed: presented %s (root %s heads %s, holds %s) before, %s (root %s heads %s, holds %s) after",
			what, rep.idx, join(before), rootBefore, join(headsBefore), join(attBefore), join(after), rep.tree.Root().Id, join(sortedCopy(rep.tree.Heads())), join(objecttree.VerifTree(rep.tree).VerifAttachedIds())))
		return
	}
	if !eqStr(storedBefore, storedIds(w.stored(rep))) {
		w.violate("C06", "refuse.stored", fmt.Sprintf("%s: rep%d refused the batch but its storage changed", what, rep.idx))
		return
	}
	w.checkReplica(rep, what)
	if !w.failed && w.r.Chance(40) {
		w.reopenReplica(rep)
	}
}

func (w *world) deliverOne() {
	if len(w.queue) == 0 {
		return
	}
	i := w.r.Intn(len(w.queue))
	m := w.queue[i]
	switch {
	case w.r.Chance(10): // duplicate: keep it queued
		w.r.Count("net.duplicate")
	default:
		w.queue = append(w.queue[:i], w.queue[i+1:]...)
	}
	if w.r.Chance(8) {
		w.r.Count("net.drop")
		return
	}
	rep := w.reps[m.to]
	if w.r.Chance(w.refusePct) {
		// the receiver's validator refuses the batch this time (e.g. it cannot check it yet); it is delivered again later
		w.applyRefused(rep, m)
		w.queue = append(w.queue, m)
		return
	}
	res, ok := w.apply(rep, m, m.kind)
	if ok && !slice.UnsortedEquals(res.Heads, m.heads) && w.r.Chance(60) {
		// what the sync handler does next: a full sync request to the sender
		w.fullSync(w.reps[m.from], rep, w.pickLimit(w.reps[m.from]))
	}
}

// loaderBatch is one observed batch of the real load iterator.
type loaderBatch struct {
	ids   []string
	sizes []int
	heads []string
	path  []string
	raw   []*treechangeproto.RawTreeChangeWithId
}

// runLoader streams the responder's answer to (theirHeads, theirPath) with the given limit, exactly as
// HandleStreamRequest does: NewResponse until a batch without changes.
func (w *world) runLoader(resp *replica, theirHeads, theirPath []string, limit int) ([]loaderBatch, error) {
	// through the real response producer (what HandleStreamRequest sends): created under the tree lock, the messages
	// produced after releasing it; the oracles judge the heads / path / changes of every produced MESSAGE
	resp.tree.Lock()
	it, err := response.NewResponseProducer("spaceId", resp.tree, theirHeads, theirPath)
	resp.tree.Unlock()
	if err != nil {
		return nil, err
	}
	var res []loaderBatch
	for guard := 0; ; guard++ {
		m, err := it.NewResponse(limit)
		if err != nil {
			return nil, err
		}
		if len(m.Changes) == 0 {
			break
		}
		b := objecttree.IteratorBatch{Batch: m.Changes, Heads: m.Heads, SnapshotPath: m.SnapshotPath}
		lb := loaderBatch{heads: append([]string{}, b.Heads...), path: append([]string{}, b.SnapshotPath...), raw: b.Batch}
		for _, c := range b.Batch {
			lb.ids = append(lb.ids, c.Id)
			lb.sizes = append(lb.sizes, len(c.RawChange))
		}
		res = append(res, lb)
		if guard > 100000 {
			return res, fmt.Errorf("loader does not terminate")
		}
	}
	return res, nil
}

func (w *world) pickLimit(resp *replica) int {
	st := w.stored(resp)
	switch w.r.Intn(6) {
	case 0:
		if len(st) <= 24 {
			return 1
		}
		return 1 << 30
	case 1:
		return 1 << 30
	case 2:
		c := st[w.r.Intn(len(st))]
		return len(c.RawChange) + w.r.Intn(3) - 1
	case 3:
		// sum of a random run of consecutive sizes ± 1
		i := w.r.Intn(len(st))
		s := 0
		for j := i; j < len(st) && j < i+1+w.r.Intn(4); j++ {
			s += len(st[j].RawChange)
		}
		return s + w.r.Intn(3) - 1
	default:
		return 150 + w.r.Intn(1500)
	}
}

// fullSync: requester asks responder with its real heads and snapshot path; batches are applied in order.
func (w *world) fullSync(resp, req *replica, limit int) {
	heads := append([]string{}, req.tree.Heads()...)
	path, _ := req.tree.SnapshotPath()
	path = append([]string{}, path...)
	w.logf("fullsync rep%d asks rep%d heads=%s path=%s limit=%d", req.idx, resp.idx, join(heads), join(path), limit)
	w.r.Count("op.fullsync")
	reqSet := idSet(storedIds(w.stored(req)))
	batches, err := w.runLoader(resp, heads, path, limit)
	if err != nil {
		w.violate("C09", "loader.error", fmt.Sprintf("loader of rep%d failed for request heads=%s path=%s: %v", resp.idx, join(heads), join(path), err))
		return
	}
	w.checkBatches(resp, reqSet, heads, path, limit, batches, "fullsync")
	if !w.failed {
		w.corrLoader(resp, heads, path, limit, batches, "fullsync")
	}
	for bi, b := range batches {
		m := message{from: resp.idx, to: req.idx, kind: "response", changes: b.raw, heads: b.heads, path: b.path}
		w.apply(req, m, "response")
		// applying the batches in order attaches every one of them
		have := idSet(storedIds(w.stored(req)))
		for _, id := range b.ids {
			if !have[id] {
				w.violate("C09", "apply.attach", fmt.Sprintf("after applying batch %d/%d of rep%d's answer, rep%d still lacks %s", bi+1, len(batches), resp.idx, req.idx, id))
			}
		}
		if w.failed {
			return
		}
	}
	// requester now holds everything the responder held
	have := idSet(storedIds(w.stored(req)))
	for _, id := range storedIds(w.stored(resp)) {
		if !have[id] {
			w.violate("C09", "apply.complete", fmt.Sprintf("after the full sync rep%d still lacks %s held by rep%d", req.idx, id, resp.idx))
			return
		}
	}
}

// interleavedSync: the real stream handler builds the loader under the tree lock, releases it, and then calls
// NextBatch until the answer is exhausted - the responder's tree keeps changing in between (local edits, head
// updates from other peers). Here the loader is driven step by step and the responder is mutated between the
// steps. The answer is judged against what the responder held when the loader was created.
func (w *world) interleavedSync(resp, req *replica, limit int) {
	heads := append([]string{}, req.tree.Heads()...)
	path, _ := req.tree.SnapshotPath()
	path = append([]string{}, path...)
	reqSet := idSet(storedIds(w.stored(req)))
	at := w.respNow(resp)
	w.logf("interleaved-sync rep%d asks rep%d heads=%s path=%s limit=%d", req.idx, resp.idx, join(heads), join(path), limit)
	w.r.Count("op.interleaved")
	resp.tree.Lock()
	it, err := response.NewResponseProducer("spaceId", resp.tree, heads, path)
	resp.tree.Unlock()
	if err != nil {
		w.violate("C09", "loader.error", fmt.Sprintf("loader of rep%d failed for request heads=%s path=%s: %v", resp.idx, join(heads), join(path), err))
		return
	}
	mutate := func() {
		if w.failed || !w.r.Chance(65) {
			return
		}
		// a head update waiting for the responder, else a local edit
		for i, m := range w.queue {
			if m.to == resp.idx && w.r.Chance(50) {
				w.queue = append(w.queue[:i], w.queue[i+1:]...)
				w.apply(resp, m, m.kind)
				w.r.Count("interleaved.mutation.remote")
				return
			}
		}
		w.localAdd(resp, w.r.Chance(10))
		w.r.Count("interleaved.mutation.local")
	}
	var batches []loaderBatch
	for guard := 0; guard < 100000 && !w.failed; guard++ {
		mutate()
		if w.failed {
			return
		}
		m, err := it.NewResponse(limit)
		if err != nil {
			w.violate("C09", "loader.error", fmt.Sprintf("NewResponse of rep%d failed: %v", resp.idx, err))
			return
		}
		if len(m.Changes) == 0 {
			break
		}
		b := objecttree.IteratorBatch{Batch: m.Changes, Heads: m.Heads, SnapshotPath: m.SnapshotPath}
		lb := loaderBatch{heads: append([]string{}, b.Heads...), path: append([]string{}, b.SnapshotPath...), raw: b.Batch}
		for _, c := range b.Batch {
			lb.ids = append(lb.ids, c.Id)
			lb.sizes = append(lb.sizes, len(c.RawChange))
		}
		w.logf("  batch %d: ids=%s heads=%s", len(batches)+1, join(lb.ids), join(lb.heads))
		batches = append(batches, lb)
	}
	if w.failed {
		return
	}
	w.checkBatchesAt(resp, at, reqSet, heads, path, limit, batches, "interleaved")
	if w.failed {
		return
	}
	w.corrLoaderAt(at, heads, path, limit, batches, "interleaved")
	for bi, b := range batches {
		w.apply(req, message{from: resp.idx, to: req.idx, kind: "response", changes: b.raw, heads: b.heads, path: b.path}, "response")
		have := idSet(storedIds(w.stored(req)))
		for _, id := range b.ids {
			if !have[id] {
				w.violate("C09", "apply.attach", fmt.Sprintf("after applying batch %d/%d of rep%d's (interleaved) answer, rep%d still lacks %s", bi+1, len(batches), resp.idx, req.idx, id))
			}
		}
		if w.failed {
			return
		}
	}
	have := idSet(storedIds(w.stored(req)))
	for _, id := range at.stored {
		if !have[id] {
			w.violate("C09", "apply.complete", fmt.Sprintf("after the (interleaved) full sync rep%d still lacks %s held by rep%d when it prepared the answer", req.idx, id, resp.idx))
			return
		}
	}
}

// staleBranch (guard-directed for the receiver's rebuild decision): a requester reduced to a snapshot asks a responder
// that has diverged BELOW that snapshot - it holds a change on top of the snapshot and, received later, a change made
// by a lagging writer that never saw the snapshot (its snapshot base is older) - with a limit that puts both into one
// batch. Depending on the ids the current-root change or the older-based one is stored first.
func (w *world) staleBranch() {
	p := w.r.Perm(len(w.reps))
	q, rr, c := w.reps[p[0]], w.reps[p[1]], w.reps[p[2]]
	const inf = 1 << 30
	steps := []func(){
		func() { w.fullSync(c, rr, inf) },    // the responder learns what the lagging writer has
		func() { w.fullSync(q, rr, inf) },    // ... and what the requester has
		func() { w.localAdd(rr, true) },      // snapshot: the responder's root moves to it
		func() { w.fullSync(rr, q, inf) },    // the requester gets the snapshot and reduces to it
		func() { w.localAdd(rr, false) },     // a change on top of the snapshot (base = the snapshot)
		func() { w.localAdd(c, false) },      // the lagging writer's change (base = its older root)
		func() { w.fullSync(c, rr, inf) },    // the responder receives it (rebuild below the snapshot)
		func() { w.fullSync(rr, q, inf) },    // the answer carries both kinds of change in one batch
	}
	for _, f := range steps {
		if w.failed {
			return
		}
		f()
	}
	w.r.Count("op.stale-branch")
	if q.tree.Root().Id != w.rootId {
		w.r.Count("op.stale-branch.requester-reduced")
	}
}

// scramble: the set a full sync would transfer, permuted, partitioned into a few batches, with duplicates,
// each announced with the sender's heads and snapshot path ("all permutations and partitions").
func (w *world) scramble(resp, req *replica) {
	heads := append([]string{}, req.tree.Heads()...)
	path, _ := req.tree.SnapshotPath()
	batches, err := w.runLoader(resp, heads, path, 1<<30)
	if err != nil || len(batches) == 0 {
		return
	}
	var all []*treechangeproto.RawTreeChangeWithId
	for _, b := range batches {
		all = append(all, b.raw...)
	}
	w.r.Rand.Shuffle(len(all), func(i, j int) { all[i], all[j] = all[j], all[i] })
	for i := w.r.Intn(3); i > 0 && len(all) > 0; i-- {
		all = append(all, all[w.r.Intn(len(all))])
	}
	w.r.Rand.Shuffle(len(all), func(i, j int) { all[i], all[j] = all[j], all[i] })
	sHeads := append([]string{}, resp.tree.Heads()...)
	sPath, _ := resp.tree.SnapshotPath()
	sPath = append([]string{}, sPath...)
	parts := 1 + w.r.Intn(3)
	w.r.Count("op.scramble")
	rounds := 1
	if w.r.Chance(50) {
		rounds = 2 // resend everything once more: what was dropped as unattachable can attach now
	}
	for round := 0; round < rounds; round++ {
		rest := all
		for p := 0; p < parts && len(rest) > 0; p++ {
			n := len(rest)
			if p < parts-1 {
				n = w.r.Intn(len(rest) + 1)
			}
			if n == 0 {
				continue
			}
			m := message{from: resp.idx, to: req.idx, kind: "scramble", changes: rest[:n], heads: sHeads, path: sPath}
			rest = rest[n:]
			w.apply(req, m, "scramble")
			if w.failed {
				return
			}
		}
	}
}

func (w *world) reopenReplica(rep *replica) {
	before := iterIds(rep.tree)
	headsBefore := sortedCopy(rep.tree.Heads())
	rootBefore := rep.tree.Root().Id
	storedBefore := storedIds(w.stored(rep))
	rep.cache = nil
	rep.tree.Close()
	if err := rep.db.Close(); err != nil {
		w.r.Fatal("db close: " + err.Error())
	}
	db, err := anystore.Open(w.ctx, filepath.Join(rep.dir, "db"), nil)
	if err != nil {
		w.r.Fatal("db reopen: " + err.Error())
	}
	rep.db = db
	rep.st, err = objecttree.VerifOpenStorage(w.ctx, w.rootId, db)
	if err != nil {
		w.r.Fatal("storage reopen: " + err.Error())
	}
	rep.tree, err = objecttree.VerifBuildTree(rep.st, w.acl, w.idGen)
	if err != nil {
		w.logf("reopen rep%d ERR %v", rep.idx, err)
		w.violate("C06", "reopen.error", fmt.Sprintf("reopening rep%d failed: %v", rep.idx, err))
		return
	}
	rep.reopen++
	after := iterIds(rep.tree)
	w.logf("reopen rep%d root=%s", rep.idx, rep.tree.Root().Id)
	w.r.Count("op.reopen")
	if !eqStr(storedBefore, storedIds(w.stored(rep))) {
		w.violate("C06", "reopen.stored", fmt.Sprintf("rep%d stored order changed across close/reopen", rep.idx))
	}
	if !eqStr(before, after) || rootBefore != rep.tree.Root().Id || !eqStr(headsBefore, sortedCopy(rep.tree.Heads())) {
		w.violate("C06", "reopen.iter", fmt.Sprintf("rep%d presented %s (root %s heads %s) before close and %s (root %s heads %s) after reopen", rep.idx, join(before), rootBefore, join(headsBefore), join(after), rep.tree.Root().Id, join(sortedCopy(rep.tree.Heads()))))
	}
	w.corrRebuild(rep)
	w.checkReplica(rep, "reopen")
}

// history: trees built from storage for given heads present the stored order restricted to their content.
func (w *world) history(rep *replica) {
	st := w.stored(rep)
	sids := storedIds(st)
	var heads []string
	kind := w.r.Intn(4)
	switch kind {
	case 0: // full
	case 1:
		heads = []string{sids[w.r.Intn(len(sids))]}
	case 2:
		for i := 1 + w.r.Intn(3); i > 0; i-- {
			heads = append(heads, sids[w.r.Intn(len(sids))])
		}
		heads = dedup(heads)
	case 3:
		heads = append([]string{}, rep.tree.Heads()...)
	}
	include := kind != 1 || w.r.Chance(50)
	if len(heads) == 1 && !include && len(w.info[heads[0]].prevs) == 0 {
		return // "before the root" is an error case, not an order question
	}
	ht, err := objecttree.VerifBuildHistoryTree(objecttree.HistoryTreeParams{Storage: rep.st, AclList: w.acl, Heads: heads, IncludeBeforeId: include})
	w.r.Count(fmt.Sprintf("op.history.%d", kind))
	what := fmt.Sprintf("history rep%d heads=%s include=%v", rep.idx, join(heads), include)
	w.logf("%s", what)
	if err != nil {
		w.violate("C06", "history.error", fmt.Sprintf("%s failed: %v", what, err))
		return
	}
	it := iterIds(ht)
	set := idSet(it)
	if r := restrict(sids, set); !eqStr(r, it) {
		w.violate("C06", "history.order", fmt.Sprintf("%s presents %s but the stored order restricted to it is %s", what, join(it), join(r)))
		return
	}
	// content: exactly the ancestors-or-equal of the requested heads that descend from the history root
	target := heads
	if len(heads) == 1 && !include {
		target = w.info[heads[0]].prevs
	}
	if len(heads) == 0 {
		if !eqStr(it, sids) {
			w.violate("C06", "history.full", fmt.Sprintf("%s: full history %s differs from the stored order %s", what, join(it), join(sids)))
		}
		return
	}
	anc := map[string]bool{}
	var up func(id string)
	up = func(id string) {
		if anc[id] {
			return
		}
		anc[id] = true
		for _, p := range w.info[id].prevs {
			up(p)
		}
	}
	for _, h := range target {
		up(h)
	}
	root := ht.Root().Id
	att := w.attachable(root, anc)
	// C06 speaks about the ORDER of a view, not about which snapshot a history view starts from. With
	// several heads the real builder may start from a sibling snapshot and then misses a requested head
	// (treeBuilder.commonSnapshot deduplicates by parent snapshot) - counted, not a C06 violation.
	if len(target) > 1 {
		for _, h := range target {
			if !set[h] {
				w.r.Count("history.multihead.head-missing(not-C06)")
				return
			}
		}
	}
	for id := range set {
		if !att[id] {
			w.violate("C06", "history.content", fmt.Sprintf("%s (root %s) presents %s which is not an ancestor of the requested heads above the root", what, root, id))
			return
		}
	}
	if len(target) == 1 && !eqStr(sortedCopy(it), sortedKeys(att)) {
		w.violate("C06", "history.content", fmt.Sprintf("%s (root %s) presents %s, expected the ancestors of the head above the root: %s", what, root, join(sortedCopy(it)), join(sortedKeys(att))))
	}
}

func sortedKeys(m map[string]bool) []string {
	var res []string
	for k, v := range m {
		if v {
			res = append(res, k)
		}
	}
	sort.Strings(res)
	return res
}

func dedup(l []string) []string {
	seen := map[string]bool{}
	var res []string
	for _, x := range l {
		if !seen[x] {
			seen[x] = true
			res = append(res, x)
		}
	}
	return res
}

// crossCheck: replicas holding the same set store it in the same order; replicas whose in-memory view
// has the same root and content present the same sequence.
func (w *world) crossCheck() {
	type obs struct {
		rep    *replica
		stored []string
		iter   []string
	}
	var all []obs
	for _, rep := range w.reps {
		all = append(all, obs{rep, storedIds(w.stored(rep)), iterIds(rep.tree)})
	}
	for i := range all {
		for j := i + 1; j < len(all); j++ {
			a, b := all[i], all[j]
			if eqStr(sortedCopy(a.stored), sortedCopy(b.stored)) {
				w.r.Count("cross.equal.sets")
				if !eqStr(a.stored, b.stored) {
					w.violate("C06", "cross.stored", fmt.Sprintf("rep%d and rep%d hold the same set but store it as %s vs %s", a.rep.idx, b.rep.idx, join(a.stored), join(b.stored)))
				}
			}
			if eqStr(sortedCopy(a.iter), sortedCopy(b.iter)) {
				w.r.Count("cross.equal.views")
				if !eqStr(a.iter, b.iter) {
					w.violate("C06", "cross.iter", fmt.Sprintf("rep%d and rep%d hold the same view but present %s vs %s", a.rep.idx, b.rep.idx, join(a.iter), join(b.iter)))
				}
			}
			// a (possibly reduced) view of one replica is the other's stored order restricted to it,
			// whenever the other stores everything in it
			bs := idSet(b.stored)
			sub := true
			for _, id := range a.iter {
				if !bs[id] {
					sub = false
					break
				}
			}
			if sub {
				if r := restrict(b.stored, idSet(a.iter)); !eqStr(r, a.iter) {
					w.violate("C06", "cross.restrict", fmt.Sprintf("rep%d presents %s but rep%d's stored order restricted to it is %s", a.rep.idx, join(a.iter), b.rep.idx, join(r)))
				}
			}
		}
	}
}

func (w *world) cloneReplica(src *replica) (*replica, error) {
	if err := src.db.Flush(w.ctx, 0, anystore.FlushModeCheckpointFull); err != nil {
		return nil, err
	}
	rep := &replica{idx: len(w.reps)}
	rep.dir = filepath.Join(w.base, fmt.Sprintf("rep%d", rep.idx))
	if err := os.CopyFS(rep.dir, os.DirFS(src.dir)); err != nil {
		return nil, err
	}
	db, err := anystore.Open(w.ctx, filepath.Join(rep.dir, "db"), nil)
	if err != nil {
		return nil, err
	}
	rep.db = db
	rep.st, err = objecttree.VerifOpenStorage(w.ctx, w.rootId, db)
	if err != nil {
		return nil, err
	}
	rep.tree, err = objecttree.VerifBuildTree(rep.st, w.acl, w.idGen)
	if err != nil {
		return nil, err
	}
	w.reps = append(w.reps, rep)
	return rep, nil
}
