package tree

import (
	"fmt"
	"os"

	"github.com/anyproto/any-sync/commonspace/object/tree/objecttree"
)

// checkBatches states C09 directly on the batches the real loader produced for a requester whose stored
// set is reqSet and who announced theirHeads.
func (w *world) checkBatches(resp *replica, reqSet map[string]bool, theirHeads, theirPath []string, limit int, batches []loaderBatch, what string) {
	w.checkBatchesAt(resp, w.respNow(resp), reqSet, theirHeads, theirPath, limit, batches, what)
}

// respState is what the responder held when the loader was created (the answer is judged against that state: the
// real stream handler builds the loader under the tree lock and streams the batches after releasing it).
type respState struct {
	stored []string
	full   []objecttree.StorageChange
	heads  []string
	chain  []string
	path   []string
}

func (w *world) respNow(resp *replica) respState {
	st := w.stored(resp)
	p, _ := resp.tree.SnapshotPath()
	return respState{stored: storedIds(st), full: st, heads: sortedCopy(resp.tree.Heads()), chain: w.snapChain(resp.tree.Root().Id), path: append([]string{}, p...)}
}

func (w *world) checkBatchesAt(resp *replica, at respState, reqSet map[string]bool, theirHeads, theirPath []string, limit int, batches []loaderBatch, what string) {
	ctxt := fmt.Sprintf("%s: rep%d answering heads=%s path=%s limit=%d", what, resp.idx, join(theirHeads), join(theirPath), limit)
	respStored := at.stored
	respSet := idSet(respStored)
	sentAt := map[string]int{}
	n := 0
	w.r.Count("loader.requests")
	w.r.CountN("loader.batches", len(batches))
	if len(batches) > 1 {
		w.r.Count("loader.multibatch")
	}
	for bi, b := range batches {
		total := 0
		for i, id := range b.ids {
			if _, dup := sentAt[id]; dup {
				w.violate("C09", "batches.dup", fmt.Sprintf("%s: %s is sent twice (second time in batch %d)", ctxt, id, bi+1))
				return
			}
			if !respSet[id] {
				w.violate("C09", "batches.foreign", fmt.Sprintf("%s: %s is sent but not stored by the responder", ctxt, id))
				return
			}
			sentAt[id] = n
			n++
			total += b.sizes[i]
		}
		// size bound: within the limit unless the batch is a single change
		if total > limit && len(b.ids) != 1 {
			w.violate("C09", "batches.size", fmt.Sprintf("%s: batch %d has %d changes of total size %d", ctxt, bi+1, len(b.ids), total))
			return
		}
		if len(b.ids) == 1 && total > limit {
			w.r.Count("loader.oversized.single")
		}
		// causal: each change after all of its parents the requester lacks
		for _, id := range b.ids {
			for _, p := range w.info[id].prevs {
				if reqSet[p] {
					continue
				}
				at, ok := sentAt[p]
				if !ok || at >= sentAt[id] {
					w.violate("C09", "batches.causal", fmt.Sprintf("%s: %s (batch %d) is sent without/ before its parent %s which the requester lacks", ctxt, id, bi+1, p))
					return
				}
			}
		}
		// announced heads: sent so far or known to the requester; every change of the batch is below one
		anc := map[string]bool{}
		var up func(id string)
		up = func(id string) {
			if anc[id] {
				return
			}
			anc[id] = true
			if ci := w.info[id]; ci != nil {
				for _, p := range ci.prevs {
					up(p)
				}
			}
		}
		if len(b.heads) == 0 {
			w.violate("C09", "batches.heads.empty", fmt.Sprintf("%s: batch %d announces no heads", ctxt, bi+1))
			return
		}
		for _, h := range b.heads {
			if _, sent := sentAt[h]; !sent && !reqSet[h] {
				w.violate("C09", "batches.heads.unknown", fmt.Sprintf("%s: batch %d announces head %s which is neither sent so far nor held by the requester", ctxt, bi+1, h))
				return
			}
			up(h)
		}
		for i, h := range b.heads {
			for j, g := range b.heads {
				if i != j && h == g {
					w.violate("C09", "batches.heads.dup", fmt.Sprintf("%s: batch %d announces head %s twice", ctxt, bi+1, h))
					return
				}
			}
		}
		for _, id := range b.ids {
			if !anc[id] {
				w.violate("C09", "batches.heads.cover", fmt.Sprintf("%s: %s in batch %d is not below any announced head %s", ctxt, id, bi+1, join(b.heads)))
				return
			}
		}
	}
	// complete
	for _, id := range respStored {
		if reqSet[id] {
			continue
		}
		if _, ok := sentAt[id]; !ok {
			w.violate("C09", "batches.complete", fmt.Sprintf("%s: responder holds %s, the requester lacks it, and it is not sent", ctxt, id))
			return
		}
	}
	// a single-batch answer announces exactly the responder's heads
	if len(batches) == 1 {
		if !eqStr(sortedCopy(batches[0].heads), at.heads) {
			w.violate("C09", "batches.heads.final", fmt.Sprintf("%s: single batch announces %s, responder heads are %s", ctxt, join(sortedCopy(batches[0].heads)), join(at.heads)))
		}
	}
	// the snapshot path sent along is the responder's: its root, that root's snapshot, … down to the tree root
	// (computed by the harness from the stored snapshot ids, not by asking the tree again)
	if len(batches) > 0 {
		p := at.chain
		for bi, b := range batches {
			if !eqStr(b.path, p) {
				w.violate("C09", "batches.path", fmt.Sprintf("%s: batch %d carries path %s, responder path is %s", ctxt, bi+1, join(b.path), join(p)))
				return
			}
		}
	}
}

// limitsFor: guard-directed limits around every boundary of the answer (sizes and partial sums ±1).
func (w *world) limitsFor(batchesInf []loaderBatch, max int) []int {
	var sizes []int
	for _, b := range batchesInf {
		sizes = append(sizes, b.sizes...)
	}
	cand := map[int]bool{1 << 30: true}
	if len(sizes) <= 24 || w.r.Chance(10) {
		cand[1] = true
	}
	total := 0
	for _, s := range sizes {
		total += s
	}
	cand[total-1], cand[total], cand[total+1] = true, true, true
	for k := 0; k < 6 && len(sizes) > 0; k++ {
		i := w.r.Intn(len(sizes))
		s := 0
		for j := i; j < len(sizes) && j < i+1+w.r.Intn(3); j++ {
			s += sizes[j]
		}
		cand[s-1], cand[s], cand[s+1] = true, true, true
	}
	var res []int
	for l := range cand {
		if l < 1 {
			continue
		}
		// small limits on long answers cost one storage query per change: keep them rare
		if len(sizes) > 24 && l < total/6 && !w.r.Chance(8) {
			continue
		}
		res = append(res, l)
	}
	// deterministic order, then sample
	sortInts(res)
	w.r.Rand.Shuffle(len(res), func(i, j int) { res[i], res[j] = res[j], res[i] })
	if len(res) > max {
		res = res[:max]
	}
	return res
}

func sortInts(a []int) {
	for i := 1; i < len(a); i++ {
		for j := i; j > 0 && a[j-1] > a[j]; j-- {
			a[j-1], a[j] = a[j], a[j-1]
		}
	}
}

// loaderSweep: read-only C09 checks for one (responder, requester) pair over request variants and limits,
// plus applying some answers to a throw-away copy of the requester.
func (w *world) loaderSweep(resp, req *replica, nLimits, nApply int) {
	reqStored := idSet(storedIds(w.stored(req)))
	reqHeads := append([]string{}, req.tree.Heads()...)
	reqPath, _ := req.tree.SnapshotPath()
	reqPath = append([]string{}, reqPath...)
	type variant struct {
		name   string
		heads  []string
		path   []string
		reqSet map[string]bool
		apply  bool
	}
	respSet := idSet(storedIds(w.stored(resp)))
	known, unknown := 0, 0
	for _, h := range reqHeads {
		if respSet[h] {
			known++
		} else {
			unknown++
		}
	}
	switch {
	case unknown == 0:
		w.r.Count("loader.reqheads.known")
	case known == 0:
		w.r.Count("loader.reqheads.unknown")
	default:
		w.r.Count("loader.reqheads.partly")
	}
	vs := []variant{
		{"real", reqHeads, reqPath, reqStored, true},
		{"empty", nil, nil, map[string]bool{}, false},
		{"fresh", []string{w.rootId}, []string{w.rootId}, map[string]bool{w.rootId: true}, false},
	}
	if len(reqHeads) > 1 {
		vs = append(vs, variant{"subset", reqHeads[:1+w.r.Intn(len(reqHeads)-1)], reqPath, reqStored, false})
	}
	vs = append(vs, variant{"plus-unknown", append(append([]string{}, reqHeads...), "~unknown~"), reqPath, reqStored, false})
	for _, v := range vs {
		inf, err := w.runLoader(resp, v.heads, v.path, 1<<30)
		what := "sweep." + v.name
		if err != nil {
			w.violate("C09", "loader.error", fmt.Sprintf("%s: loader of rep%d failed for heads=%s path=%s: %v", what, resp.idx, join(v.heads), join(v.path), err))
			return
		}
		w.r.Count("loader.variant." + v.name)
		if v.name == "empty" {
			// an empty request returns the whole tree
			sent := map[string]bool{}
			for _, b := range inf {
				for _, id := range b.ids {
					sent[id] = true
				}
			}
			for id := range respSet {
				if !sent[id] {
					w.violate("C09", "empty.whole", fmt.Sprintf("empty request to rep%d does not return %s", resp.idx, id))
					return
				}
			}
		}
		applied := 0
		for _, limit := range w.limitsFor(inf, nLimits) {
			batches, err := w.runLoader(resp, v.heads, v.path, limit)
			if err != nil {
				w.violate("C09", "loader.error", fmt.Sprintf("%s: loader of rep%d failed (limit %d): %v", what, resp.idx, limit, err))
				return
			}
			w.checkBatches(resp, v.reqSet, v.heads, v.path, limit, batches, what)
			if !w.failed {
				w.corrLoader(resp, v.heads, v.path, limit, batches, fmt.Sprintf("%s rep%d<-rep%d", what, req.idx, resp.idx))
			}
			if w.failed {
				w.logf("%s rep%d<-rep%d heads=%s path=%s limit=%d", what, req.idx, resp.idx, join(v.heads), join(v.path), limit)
				return
			}
			// the concatenation does not depend on the limit
			var a, b []string
			for _, x := range inf {
				a = append(a, x.ids...)
			}
			for _, x := range batches {
				b = append(b, x.ids...)
			}
			if !eqStr(a, b) {
				w.violate("C09", "batches.limit.independent", fmt.Sprintf("%s: rep%d sends %s with limit %d but %s without limit", what, resp.idx, join(b), limit, join(a)))
				return
			}
			if v.apply && applied < nApply && len(batches) > 0 {
				applied++
				w.applyToClone(resp, req, batches, limit)
				if w.failed {
					return
				}
			}
		}
	}
}

func (w *world) applyToClone(resp, req *replica, batches []loaderBatch, limit int) {
	clone, err := w.cloneReplica(req)
	if err != nil {
		w.r.Fatal("clone: " + err.Error())
	}
	defer func() {
		clone.tree.Close()
		clone.db.Close()
		os.RemoveAll(clone.dir)
		w.reps = w.reps[:len(w.reps)-1]
	}()
	mark := len(w.trace)
	w.logf("clone rep%d := copy of rep%d; apply rep%d's answer (limit %d, %d batches)", clone.idx, req.idx, resp.idx, limit, len(batches))
	w.r.Count("loader.clone.apply")
	for bi, b := range batches {
		w.apply(clone, message{from: resp.idx, to: clone.idx, kind: "response", changes: b.raw, heads: b.heads, path: b.path}, "response")
		have := idSet(storedIds(w.stored(clone)))
		for _, id := range b.ids {
			if !have[id] {
				w.violate("C09", "apply.attach", fmt.Sprintf("after applying batch %d/%d of rep%d's answer (limit %d), the requester (copy of rep%d) still lacks %s", bi+1, len(batches), resp.idx, limit, req.idx, id))
				return
			}
		}
		if w.failed {
			return
		}
	}
	have := idSet(storedIds(w.stored(clone)))
	for _, id := range storedIds(w.stored(resp)) {
		if !have[id] {
			w.violate("C09", "apply.complete", fmt.Sprintf("after applying rep%d's whole answer (limit %d) the requester (copy of rep%d) still lacks %s", resp.idx, limit, req.idx, id))
			return
		}
	}
	// the clone's ops are not part of the ongoing history
	w.trace = w.trace[:mark]
}

// snapChain: root, its snapshot, that one's snapshot, … (from the snapshot ids the harness learned from storage).
func (w *world) snapChain(id string) []string {
	var res []string
	for guard := 0; id != "" && guard < 100000; guard++ {
		res = append(res, id)
		ci := w.info[id]
		if ci == nil {
			break
		}
		id = ci.snap
	}
	return res
}
