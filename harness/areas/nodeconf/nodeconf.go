// Package nodeconf drives the real nodeconf service (every participant's own instance, built by
// service.Init exactly as in production) against the Lean model and the direct oracle of C18.
package nodeconf

import (
	"context"
	"encoding/hex"
	"fmt"
	"sort"
	"strings"

	"github.com/anyproto/go-chash"

	"github.com/anyproto/any-sync/accountservice"
	realapp "github.com/anyproto/any-sync/app"
	"github.com/anyproto/any-sync/commonspace/object/accountdata"
	rnc "github.com/anyproto/any-sync/nodeconf"

	"verifharness/internal/corr"
)

const prop = "C18"

// ---- fake collaborators of nodeconf.service (config, account, source, store, version checker) ----

type cfgComp struct{ c rnc.Configuration }

func (c *cfgComp) Init(*realapp.App) error        { return nil }
func (c *cfgComp) Name() string                   { return "config" }
func (c *cfgComp) GetNodeConf() rnc.Configuration { return c.c }

type accComp struct{ keys *accountdata.AccountKeys }

func (a *accComp) Init(*realapp.App) error            { return nil }
func (a *accComp) Name() string                       { return accountservice.CName }
func (a *accComp) Account() *accountdata.AccountKeys { return a.keys }

type srcComp struct{}

func (s *srcComp) Init(*realapp.App) error { return nil }
func (s *srcComp) Name() string            { return rnc.CNameSource }
func (s *srcComp) GetLast(context.Context, string) (rnc.Configuration, error) {
	return rnc.Configuration{}, rnc.ErrConfigurationNotChanged
}

// storeComp: either empty (service falls back to the app configuration) or holding a stored copy
type storeComp struct {
	stored *rnc.Configuration
	saved  int
}

func (s *storeComp) Init(*realapp.App) error { return nil }
func (s *storeComp) Name() string            { return rnc.CNameStore }
func (s *storeComp) GetLast(context.Context, string) (rnc.Configuration, error) {
	if s.stored == nil {
		return rnc.Configuration{}, rnc.ErrConfigurationNotFound
	}
	c := *s.stored
	c.Nodes = append([]rnc.Node{}, c.Nodes...)
	return c, nil
}
func (s *storeComp) SaveLast(context.Context, rnc.Configuration) error { s.saved++; return nil }

type verComp struct{}

func (v *verComp) Init(*realapp.App) error { return nil }
func (v *verComp) Name() string            { return "verif.versionchecker" }
func (v *verComp) IsNetworkNeedsUpdate(context.Context) (bool, error) {
	return false, nil
}

// newParticipant builds a real nodeconf.Service for the account `self` over configuration c.
func newParticipant(self string, c rnc.Configuration, viaStore bool) (svc rnc.Service, err error) {
	defer func() {
		if p := recover(); p != nil {
			err = fmt.Errorf("panic: %v", p)
		}
	}()
	a := new(realapp.App)
	svc = rnc.New()
	st := &storeComp{}
	if viaStore {
		cc := c
		cc.Nodes = append([]rnc.Node{}, c.Nodes...)
		st.stored = &cc
	}
	a.Register(&cfgComp{c}).
		Register(&accComp{&accountdata.AccountKeys{PeerId: self}}).
		Register(&srcComp{}).Register(st).Register(&verComp{}).Register(svc)
	if err = svc.Init(a); err != nil {
		return nil, err
	}
	return svc, nil
}

// ---- generators ----------------------------------------------------------------------------

var allTypes = []rnc.NodeType{rnc.NodeTypeTree, rnc.NodeTypeConsensus, rnc.NodeTypeFile, rnc.NodeTypeFileV2,
	rnc.NodeTypeCoordinator, rnc.NodeTypeNamingNode, rnc.NodeTypePaymentProcessingNode, rnc.NodeType("unknownType")}

var typeCode = map[rnc.NodeType]string{rnc.NodeTypeTree: "t", rnc.NodeTypeConsensus: "c", rnc.NodeTypeFile: "f",
	rnc.NodeTypeFileV2: "v", rnc.NodeTypeCoordinator: "o", rnc.NodeTypeNamingNode: "n",
	rnc.NodeTypePaymentProcessingNode: "p", rnc.NodeType("unknownType"): "x"}

const b58 = "123456789ABCDEFGHJKLMNPQRSTUVWXYZabcdefghijkmnopqrstuvwxyz"
const b36 = "0123456789abcdefghijklmnopqrstuvwxyz"

func randStr(r *corr.Run, alphabet string, n int) string {
	b := make([]byte, n)
	for i := range b {
		b[i] = alphabet[r.Intn(len(alphabet))]
	}
	return string(b)
}

func hasTree(n rnc.Node) bool {
	for _, t := range n.Types {
		if t == rnc.NodeTypeTree {
			return true
		}
	}
	return false
}

// genNodes: n duplicate-free nodes; `sync` of them carry the tree type (mixed with other types,
// possibly repeated), the rest carry an arbitrary tree-free mix (possibly empty).
func genNodes(r *corr.Run, n, sync int) []rnc.Node {
	used := map[string]bool{}
	nodes := make([]rnc.Node, 0, n)
	for i := 0; i < n; i++ {
		var id string
		for {
			switch r.Intn(4) {
			case 0:
				id = randStr(r, b36, 1+r.Intn(3)) // short ids: near-collisions like "a", "a1", "a10" ("a"+"10" vs "a1"+"0")
			default:
				id = "12D3KooW" + randStr(r, b58, 44)
			}
			if !used[id] {
				used[id] = true
				break
			}
		}
		var types []rnc.NodeType
		for _, t := range allTypes[1:] {
			if r.Chance(25) {
				types = append(types, t)
			}
		}
		if i < sync {
			pos := r.Intn(len(types) + 1)
			types = append(types[:pos], append([]rnc.NodeType{rnc.NodeTypeTree}, types[pos:]...)...)
			if r.Chance(10) {
				types = append(types, rnc.NodeTypeTree) // repeated type
			}
		}
		addrs := []string{}
		for k := r.Intn(3); k > 0; k-- {
			addrs = append(addrs, fmt.Sprintf("10.0.%d.%d:%d", r.Intn(256), r.Intn(256), 1000+r.Intn(9000)))
		}
		nodes = append(nodes, rnc.Node{PeerId: id, Addresses: addrs, Types: types})
	}
	return permuted(r, nodes)
}

func permuted(r *corr.Run, nodes []rnc.Node) []rnc.Node {
	out := make([]rnc.Node, len(nodes))
	for i, j := range r.Perm(len(nodes)) {
		out[i] = nodes[j]
	}
	return out
}

// genSpaceIds: ids with and without replication key; dots inside the CID part, trailing dot,
// multiple dots, empty, pairs sharing a suffix.
func genSpaceIds(r *corr.Run, k int) []string {
	cid := func() string { return "bafyrei" + randStr(r, b36, 8+r.Intn(45)) }
	key := func() string { return randStr(r, b36, 1+r.Intn(13)) }
	ids := []string{"", ".", "..", cid() + ".", "." + key()}
	shared := key()
	ids = append(ids, cid()+"."+shared, cid()+"."+shared, shared, cid()+"."+cid()+"."+shared, "."+shared, ".."+shared)
	for len(ids) < k {
		switch r.Intn(8) {
		case 0:
			ids = append(ids, cid())
		case 1:
			ids = append(ids, cid()+"."+key()+"."+key())
		case 2:
			ids = append(ids, cid()+".."+key())
		case 3:
			ids = append(ids, cid()+"."+key()+".")
		case 4:
			ids = append(ids, key())
		case 5:
			// non-ASCII bytes around the dot
			ids = append(ids, "caf\xc3\xa9"+cid()+".\xff"+key())
		default:
			ids = append(ids, cid()+"."+key())
		}
	}
	return ids
}

// ---- independent reference computations for the direct oracle ---------------------------------

func refReplKey(id string) string {
	for i := len(id) - 1; i >= 0; i-- {
		if id[i] == '.' {
			return id[i+1:]
		}
	}
	return id
}

type member string

func (m member) Id() string        { return string(m) }
func (m member) Capacity() float64 { return 1 }

type refConsts struct{ partitionCount, replicationFactor int }

// refRing: a go-chash ring built by the harness over the sorted sync-node id set only, with the
// ring parameters declared in nodeconf/service.go (the compiled-in constants of the real package).
func refRing(repo refConsts, syncIds []string) (chash.CHash, error) {
	ch, err := chash.New(chash.Config{PartitionCount: uint64(repo.partitionCount), ReplicationFactor: repo.replicationFactor})
	if err != nil {
		return nil, err
	}
	ms := make([]chash.Member, len(syncIds))
	for i, id := range syncIds {
		ms[i] = member(id)
	}
	return ch, ch.AddMembers(ms...)
}

func ids(ms []chash.Member) []string {
	out := make([]string, len(ms))
	for i, m := range ms {
		out[i] = m.Id()
	}
	return out
}

func sorted(l []string) []string {
	o := append([]string{}, l...)
	sort.Strings(o)
	return o
}

func hasDup(l []string) bool {
	s := sorted(l)
	for i := 1; i < len(s); i++ {
		if s[i] == s[i-1] {
			return true
		}
	}
	return false
}

func eq(a, b []string) bool {
	if len(a) != len(b) {
		return false
	}
	for i := range a {
		if a[i] != b[i] {
			return false
		}
	}
	return true
}

func contains(l []string, x string) bool {
	for _, y := range l {
		if x == y {
			return true
		}
	}
	return false
}

// ---- one configuration ------------------------------------------------------------------------

type interner struct {
	m map[string]int
}

func (in *interner) id(s string) int {
	if v, ok := in.m[s]; ok {
		return v
	}
	v := len(in.m) + 1
	in.m[s] = v
	return v
}

func (in *interner) csv(l []string) string {
	if len(l) == 0 {
		return "-"
	}
	p := make([]string, len(l))
	for i, s := range l {
		p[i] = fmt.Sprint(in.id(s))
	}
	return strings.Join(p, ",")
}

func hx(s string) string {
	if s == "" {
		return "-"
	}
	return hex.EncodeToString([]byte(s))
}

func wireCfg(in *interner, nodes []rnc.Node) string {
	if len(nodes) == 0 {
		return "-"
	}
	p := make([]string, len(nodes))
	for i, n := range nodes {
		ts := ""
		for _, t := range n.Types {
			ts += typeCode[t]
		}
		if ts == "" {
			ts = "-"
		}
		p[i] = fmt.Sprintf("%d:%s", in.id(n.PeerId), ts)
	}
	return strings.Join(p, ",")
}

type participant struct {
	self  string
	role  string // "sync" | "other" | "client"
	nodes []rnc.Node
	svc   rnc.Service
}

func oneConfig(r *corr.Run, consts refConsts, n, sync int, nIds int) {
	base := genNodes(r, n, sync)
	in := &interner{m: map[string]int{}}
	var syncIds []string
	for _, nd := range base {
		if hasTree(nd) {
			syncIds = append(syncIds, nd.PeerId)
		}
	}
	syncIds = sorted(syncIds)
	cfgDesc := fmt.Sprintf("cfg n=%d sync=%d nodes=%s", n, len(syncIds), wireCfg(in, base))
	violate := func(stream, desc string, ops ...string) {
		r.Violate(prop, "", stream, desc, append([]string{cfgDesc}, ops...))
	}

	ref, err := refRing(consts, syncIds)
	if err != nil {
		r.Fatal("reference ring: " + err.Error())
	}

	// participants: every node of the configuration and one client; each sees its own permutation of
	// the node list; some views carry extra nodes WITHOUT the tree type (must change nothing)
	var parts []*participant
	mk := func(self, role string) {
		nodes := permuted(r, base)
		if r.Chance(30) {
			extra := genNodes(r, 1+r.Intn(3), 0)
			for _, e := range extra {
				dup := false
				for _, b := range base {
					if b.PeerId == e.PeerId {
						dup = true
					}
				}
				if !dup && e.PeerId != self {
					nodes = append(nodes, e)
				}
			}
			nodes = permuted(r, nodes)
			r.Count("view.extra-nonsync-nodes")
		}
		c := rnc.Configuration{Id: "conf-" + randStr(r, b36, 6), NetworkId: "net", Nodes: nodes}
		viaStore := r.Chance(25)
		svc, err := newParticipant(self, c, viaStore)
		if err != nil {
			violate("nodeconf.build", fmt.Sprintf("participant %s (%s): building the node configuration failed: %v", role, self, err))
			return
		}
		if viaStore {
			r.Count("view.via-stored-config")
		}
		parts = append(parts, &participant{self, role, nodes, svc})
	}
	for _, nd := range base {
		role := "other"
		if hasTree(nd) {
			role = "sync"
		}
		mk(nd.PeerId, role)
	}
	mk("12D3KooWclient"+randStr(r, b58, 38), "client")
	if len(parts) == 0 {
		return
	}

	wantLen := consts.replicationFactor
	if len(syncIds) < wantLen {
		wantLen = len(syncIds)
	}
	r.Count(fmt.Sprintf("cfg.sync=%d", min(len(syncIds), 6)))
	r.Count(fmt.Sprintf("cfg.nodes=%d", n))

	// stream nodeconf.sync: which nodes the REAL code put on the ring (union over all partitions)
	// = the model's tree-type filter over the participant's configuration
	for _, p := range parts {
		union := map[string]bool{}
		ch := p.svc.CHash()
		for i := 0; i < ch.PartitionCount(); i++ {
			ms, _ := ch.GetPartitionMembers(i)
			for _, m := range ms {
				union[m.Id()] = true
			}
		}
		var ul []string
		for k := range union {
			ul = append(ul, k)
		}
		ul = sorted(ul)
		op := "sync " + wireCfg(in, p.nodes)
		impl := in.csvSortedInts(ul)
		r.Check(prop, "nodeconf.sync", []string{op}, r.Ask(op), impl)
		if !eq(ul, syncIds) {
			violate("nodeconf.ring-members.oracle", fmt.Sprintf("participant %s: nodes on its ring %v, sync nodes of the configuration %v", p.role, ul, syncIds), op)
		}
		if ch.PartitionCount() != consts.partitionCount {
			violate("nodeconf.ring-params.oracle", fmt.Sprintf("ring has %d partitions, service.go declares %d", ch.PartitionCount(), consts.partitionCount))
		}
	}

	bySuffix := map[string][]string{}
	for _, id := range genSpaceIds(r, nIds) {
		key := refReplKey(id)
		want := ids(ref.GetMembers(key)) // function of (sorted sync-node set, suffix) only
		wantSorted := sorted(want)
		idOp := "id " + hx(id)

		// chash properties the Lean theorems assume (go-chash is modelled, not verified)
		if hasDup(want) || len(want) != wantLen {
			violate("chash.assumption", fmt.Sprintf("reference ring returned %v for %d sync nodes (rf %d)", want, len(syncIds), consts.replicationFactor), idOp)
		}
		for _, m := range want {
			if !contains(syncIds, m) {
				violate("chash.assumption", fmt.Sprintf("reference ring returned non-member %s", m), idOp)
			}
		}
		if prev, ok := bySuffix[key]; ok && !eq(prev, wantSorted) {
			violate("chash.assumption", "same key, different members", idOp)
		}
		bySuffix[key] = wantSorted

		// stream nodeconf.replkey
		if got := rnc.ReplKey(id); true {
			op := "replkey " + hx(id)
			r.Check(prop, "nodeconf.replkey", []string{op}, r.Ask(op), hx(got))
			if got != key {
				violate("nodeconf.replkey.oracle", fmt.Sprintf("ReplKey(%q) = %q, the suffix after the last dot is %q", id, got, key), op)
			}
		}

		trace := []string{cfgDesc, idOp}
		var respCount int
		for _, p := range parts {
			var nodeIds []string
			var isResp bool
			var part int
			func() {
				defer func() {
					if x := recover(); x != nil {
						violate("nodeconf.panic", fmt.Sprintf("participant %s: panic %v", p.role, x), idOp)
					}
				}()
				nodeIds = p.svc.NodeIds(id)
				isResp = p.svc.IsResponsible(id)
				part = p.svc.Partition(id)
			}()
			who := fmt.Sprintf("participant %s(%d)", p.role, in.id(p.self))

			// --- direct oracle -------------------------------------------------------------
			set := append([]string{}, nodeIds...)
			if isResp {
				set = append(set, p.self)
				respCount++
			}
			if !eq(sorted(set), wantSorted) {
				violate("nodeconf.agree.oracle", fmt.Sprintf("%s: responsible set %v (NodeIds %v, IsResponsible %v); the set determined by the sync-node set and the suffix %q is %v",
					who, in.csv(sorted(set)), in.csv(nodeIds), isResp, key, in.csv(wantSorted)), idOp)
			}
			if isResp != contains(want, p.self) {
				violate("nodeconf.isresponsible.oracle", fmt.Sprintf("%s: IsResponsible=%v but membership in the responsible set is %v", who, isResp, contains(want, p.self)), idOp)
			}
			var minus []string
			for _, m := range want {
				if m != p.self {
					minus = append(minus, m)
				}
			}
			if !eq(sorted(nodeIds), sorted(minus)) || hasDup(nodeIds) {
				violate("nodeconf.nodeids.oracle", fmt.Sprintf("%s: NodeIds %v, responsible set minus self is %v", who, in.csv(nodeIds), in.csv(minus)), idOp)
			}
			if refPart := ref.GetPartition(key); part != refPart {
				violate("nodeconf.partition.oracle", fmt.Sprintf("%s: Partition %d, partition of the suffix is %d", who, part, refPart), idOp)
			}

			// --- correspondence with the Lean model: the participant's own ring (as data) for the
			// candidate keys, the model chooses the key and filters
			ch := p.svc.CHash()
			cands := candidateKeys(id)
			tbl := make([]string, len(cands))
			for i, k := range cands {
				tbl[i] = fmt.Sprintf("%s=%d:%s", hx(k), ch.GetPartition(k), in.csv(ids(ch.GetMembers(k))))
			}
			op := fmt.Sprintf("q %d %s %s", in.id(p.self), hx(id), strings.Join(tbl, ";"))
			b := "0"
			if isResp {
				b = "1"
			}
			impl := fmt.Sprintf("%d %s %s", part, in.csv(nodeIds), b)
			r.Check(prop, "nodeconf.query", []string{cfgDesc, op}, r.Ask(op), impl)
			trace = append(trace, op)
			r.Count("ask." + p.role + ".resp=" + b)
		}
		if respCount != wantLen {
			violate("nodeconf.count.oracle", fmt.Sprintf("%d participants report themselves responsible, expected min(rf,#sync)=%d", respCount, wantLen), idOp)
		}
		r.Case(strings.Join(trace, "|"), len(syncIds) >= 2)
		switch {
		case id == "":
			r.Count("id.empty")
		case !strings.Contains(id, "."):
			r.Count("id.nodot")
		case strings.HasSuffix(id, "."):
			r.Count("id.trailing-dot")
		case strings.Count(id, ".") > 1:
			r.Count("id.multi-dot")
		default:
			r.Count("id.cid.key")
		}
		if len(syncIds) >= 4 && strings.Count(id, ".") == 1 && key != "" && r.Chance(20) {
			r.Sample(map[string]any{"cfg": cfgDesc, "id": id, "responsible": in.csv(want)})
		}
	}
}

func (in *interner) csvSortedInts(l []string) string {
	if len(l) == 0 {
		return "-"
	}
	v := make([]int, len(l))
	for i, s := range l {
		v[i] = in.id(s)
	}
	sort.Ints(v)
	p := make([]string, len(v))
	for i, x := range v {
		p[i] = fmt.Sprint(x)
	}
	return strings.Join(p, ",")
}

// candidateKeys: the keys a (possibly wrong) ReplKey could choose; all distinct, the right one included
func candidateKeys(id string) []string {
	c := []string{id}
	add := func(s string) {
		if !contains(c, s) {
			c = append(c, s)
		}
	}
	if i := strings.LastIndex(id, "."); i >= 0 {
		add(id[i+1:])
		add(id[i:])
		add(id[:i])
	}
	if i := strings.Index(id, "."); i >= 0 {
		add(id[i+1:])
		add(id[:i])
	}
	return c
}

func Run(r *corr.Run) {
	r.SetRule("random configurations of 1..12 duplicate-free nodes with arbitrary type mixes (0..n tree nodes, directed at the replication-factor boundary 0,1,2,3,4), every node and one client as participants, each with its own REAL nodeconf.Service (service.Init), its own permutation of the node list and sometimes extra tree-free nodes; 20+ space ids per configuration (no dot, cid.key, dots in the cid part, trailing dot, empty, shared suffixes, non-ASCII bytes); a case = one (configuration, id) asked of every participant, non-trivial when the configuration has >= 2 sync nodes")
	consts := refConsts{partitionCount: rnc.PartitionCount, replicationFactor: rnc.ReplicationFactor}
	nIds := r.Pick(20, 40)
	// guard-directed: every sync count around the replication factor, for several sizes
	for sync := 0; sync <= 5 && r.TimeLeft(); sync++ {
		for _, n := range []int{sync, sync + 1, sync + 3} {
			if n >= 1 && n <= 12 {
				oneConfig(r, consts, n, sync, nIds)
			}
		}
	}
	for k := 0; k < r.Pick(80, 1500) && r.TimeLeft(); k++ {
		n := 1 + r.Intn(12)
		oneConfig(r, consts, n, r.Intn(n+1), nIds)
	}
}
