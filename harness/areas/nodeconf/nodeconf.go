// Package nodeconf drives the real nodeconf service (every participant's own instance, built by
// service.Init exactly as in production) against the Lean model and the direct oracle of C18.
package nodeconf

import (
	"context"
	"sync"
	"encoding/hex"
	"fmt"
	"sort"
	"strings"

	"github.com/anyproto/go-chash"

	"github.com/anyproto/any-sync/accountservice"
	realapp "github.com/anyproto/any-sync/app"
	"github.com/anyproto/any-sync/commonspace/object/accountdata"
	rnc "github.com/anyproto/any-sync/nodeconf"

	"verifharness/internal/corr"
)

const prop = "C18"

// ---- fake collaborators of nodeconf.service (config, account, source, store, version checker) ----

type cfgComp struct{ c rnc.Configuration }

func (c *cfgComp) Init(*realapp.App) error        { return nil }
func (c *cfgComp) Name() string                   { return "config" }
func (c *cfgComp) GetNodeConf() rnc.Configuration { return c.c }

type accComp struct{ keys *accountdata.AccountKeys }

func (a *accComp) Init(*realapp.App) error            { return nil }
func (a *accComp) Name() string                       { return accountservice.CName }
func (a *accComp) Account() *accountdata.AccountKeys { return a.keys }

// srcComp: the configuration source; delivers `next` once (a newer configuration), then "not changed"
type srcComp struct {
	mu    sync.Mutex
	next  *rnc.Configuration
	calls int
}

func (s *srcComp) Init(*realapp.App) error { return nil }
func (s *srcComp) Name() string            { return rnc.CNameSource }
func (s *srcComp) GetLast(_ context.Context, currentId string) (rnc.Configuration, error) {
	s.mu.Lock()
	defer s.mu.Unlock()
	s.calls++
	if s.next != nil && s.next.Id != currentId {
		c := *s.next
		c.Nodes = append([]rnc.Node{}, c.Nodes...)
		return c, nil
	}
	return rnc.Configuration{}, rnc.ErrConfigurationNotChanged
}

// storeComp: either empty (service falls back to the app configuration) or holding a stored copy
type storeComp struct {
	stored *rnc.Configuration
	saved  int
}

func (s *storeComp) Init(*realapp.App) error { return nil }
func (s *storeComp) Name() string            { return rnc.CNameStore }
func (s *storeComp) GetLast(context.Context, string) (rnc.Configuration, error) {
	if s.stored == nil {
		return rnc.Configuration{}, rnc.ErrConfigurationNotFound
	}
	c := *s.stored
	c.Nodes = append([]rnc.Node{}, c.Nodes...)
	return c, nil
}
func (s *storeComp) SaveLast(context.Context, rnc.Configuration) error { s.saved++; return nil }

type verComp struct{}

func (v *verComp) Init(*realapp.App) error { return nil }
func (v *verComp) Name() string            { return "verif.versionchecker" }
func (v *verComp) IsNetworkNeedsUpdate(context.Context) (bool, error) {
	return false, nil
}

func cloneCfg(c rnc.Configuration) rnc.Configuration {
	out := c
	out.Nodes = make([]rnc.Node, len(c.Nodes))
	for i, n := range c.Nodes {
		out.Nodes[i] = rnc.Node{PeerId: n.PeerId, Addresses: append([]string{}, n.Addresses...), Types: append([]rnc.NodeType{}, n.Types...)}
	}
	return out
}

// newParticipant builds a real nodeconf.Service for the account `self` through service.Init:
// appCfg is the configuration compiled into the application, stored (optional) the one persisted
// by an earlier run, update (optional) a newer one the source delivers once the service runs.
func newParticipant(self string, appCfg rnc.Configuration, stored, update *rnc.Configuration) (svc rnc.Service, closeFn func(), err error) {
	defer func() {
		if p := recover(); p != nil {
			err = fmt.Errorf("panic: %v", p)
		}
	}()
	closeFn = func() {}
	a := new(realapp.App)
	svc = rnc.New()
	st := &storeComp{}
	if stored != nil {
		cc := cloneCfg(*stored)
		st.stored = &cc
	}
	src := &srcComp{}
	if update != nil {
		cc := cloneCfg(*update)
		src.next = &cc
	}
	a.Register(&cfgComp{cloneCfg(appCfg)}).
		Register(&accComp{&accountdata.AccountKeys{PeerId: self}}).
		Register(src).Register(st).Register(&verComp{}).Register(svc)
	if err = svc.Init(a); err != nil {
		return nil, closeFn, err
	}
	if update != nil {
		// the update loop runs once: periodicsync calls the update function first thing in its goroutine
		// and Close waits for that goroutine, so after Run+Close exactly one update round has completed
		// (no wall-clock assumption). The source answers relative to the id it is asked about.
		if err = svc.Run(context.Background()); err != nil {
			return nil, closeFn, err
		}
		if err = svc.Close(context.Background()); err != nil {
			return svc, closeFn, err
		}
		if svc.Configuration().Id != update.Id {
			return svc, closeFn, fmt.Errorf("after one round of the update loop the participant is on configuration %q, the network's current one is %q (source was asked %d times)", svc.Configuration().Id, update.Id, src.calls)
		}
	}
	return svc, closeFn, nil
}

// ---- generators ----------------------------------------------------------------------------

var allTypes = []rnc.NodeType{rnc.NodeTypeTree, rnc.NodeTypeConsensus, rnc.NodeTypeFile, rnc.NodeTypeFileV2,
	rnc.NodeTypeCoordinator, rnc.NodeTypeNamingNode, rnc.NodeTypePaymentProcessingNode, rnc.NodeType("unknownType")}

var typeCode = map[rnc.NodeType]string{rnc.NodeTypeTree: "t", rnc.NodeTypeConsensus: "c", rnc.NodeTypeFile: "f",
	rnc.NodeTypeFileV2: "v", rnc.NodeTypeCoordinator: "o", rnc.NodeTypeNamingNode: "n",
	rnc.NodeTypePaymentProcessingNode: "p", rnc.NodeType("unknownType"): "x"}

const b58 = "123456789ABCDEFGHJKLMNPQRSTUVWXYZabcdefghijkmnopqrstuvwxyz"
const b36 = "0123456789abcdefghijklmnopqrstuvwxyz"

func randStr(r *corr.Run, alphabet string, n int) string {
	b := make([]byte, n)
	for i := range b {
		b[i] = alphabet[r.Intn(len(alphabet))]
	}
	return string(b)
}

func hasTree(n rnc.Node) bool {
	for _, t := range n.Types {
		if t == rnc.NodeTypeTree {
			return true
		}
	}
	return false
}

// genNodes: n duplicate-free nodes; `sync` of them carry the tree type (mixed with other types,
// possibly repeated), the rest carry an arbitrary tree-free mix (possibly empty).
func genNodes(r *corr.Run, n, sync int) []rnc.Node {
	used := map[string]bool{}
	nodes := make([]rnc.Node, 0, n)
	for i := 0; i < n; i++ {
		var id string
		for {
			switch r.Intn(4) {
			case 0:
				id = randStr(r, b36, 1+r.Intn(3)) // short ids: near-collisions like "a", "a1", "a10" ("a"+"10" vs "a1"+"0")
			default:
				id = "12D3KooW" + randStr(r, b58, 44)
			}
			if !used[id] {
				used[id] = true
				break
			}
		}
		var types []rnc.NodeType
		for _, t := range allTypes[1:] {
			if r.Chance(25) {
				types = append(types, t)
			}
		}
		if i < sync {
			pos := r.Intn(len(types) + 1)
			types = append(types[:pos], append([]rnc.NodeType{rnc.NodeTypeTree}, types[pos:]...)...)
			if r.Chance(10) {
				types = append(types, rnc.NodeTypeTree) // repeated type
			}
		}
		addrs := []string{}
		for k := r.Intn(3); k > 0; k-- {
			addrs = append(addrs, fmt.Sprintf("10.0.%d.%d:%d", r.Intn(256), r.Intn(256), 1000+r.Intn(9000)))
		}
		nodes = append(nodes, rnc.Node{PeerId: id, Addresses: addrs, Types: types})
	}
	return permuted(r, nodes)
}

// splitEntries: some peers are listed once per role — several entries with the same peer id, the tree
// type in exactly one of them (before or after the others); the entry order is shuffled by the caller
func splitEntries(r *corr.Run, nodes []rnc.Node, pct int) []rnc.Node {
	var out []rnc.Node
	for _, n := range nodes {
		if len(n.Types) < 2 || !r.Chance(pct) {
			out = append(out, n)
			continue
		}
		k := 2 + r.Intn(2)
		parts := make([][]rnc.NodeType, k)
		treePlaced := false
		for _, t := range n.Types {
			if t == rnc.NodeTypeTree {
				if treePlaced {
					continue // one tree entry per peer (chash does not detect duplicates inside one batch)
				}
				treePlaced = true
			}
			j := r.Intn(k)
			parts[j] = append(parts[j], t)
		}
		for _, ts := range parts {
			if len(ts) == 0 {
				continue
			}
			addrs := append([]string{}, n.Addresses...)
			if r.Chance(50) {
				addrs = append(addrs, fmt.Sprintf("10.1.%d.%d:%d", r.Intn(256), r.Intn(256), 1000+r.Intn(9000)))
			}
			out = append(out, rnc.Node{PeerId: n.PeerId, Addresses: addrs, Types: ts})
		}
	}
	return out
}

func hasType(n rnc.Node, t rnc.NodeType) bool {
	for _, x := range n.Types {
		if x == t {
			return true
		}
	}
	return false
}

// syncSet: the sync nodes of a configuration = peers that have the tree type in ANY entry
func syncSet(nodes []rnc.Node) []string {
	seen := map[string]bool{}
	var out []string
	for _, n := range nodes {
		if hasTree(n) && !seen[n.PeerId] {
			seen[n.PeerId] = true
			out = append(out, n.PeerId)
		}
	}
	return sorted(out)
}

func permuted(r *corr.Run, nodes []rnc.Node) []rnc.Node {
	out := make([]rnc.Node, len(nodes))
	for i, j := range r.Perm(len(nodes)) {
		out[i] = nodes[j]
	}
	return out
}

// genSpaceIds: ids with and without replication key; dots inside the CID part, trailing dot,
// multiple dots, empty, pairs sharing a suffix.
func genSpaceIds(r *corr.Run, k int) []string {
	cid := func() string { return "bafyrei" + randStr(r, b36, 8+r.Intn(45)) }
	key := func() string { return randStr(r, b36, 1+r.Intn(13)) }
	ids := []string{"", ".", "..", cid() + ".", "." + key()}
	shared := key()
	ids = append(ids, cid()+"."+shared, cid()+"."+shared, shared, cid()+"."+cid()+"."+shared, "."+shared, ".."+shared)
	for len(ids) < k {
		switch r.Intn(8) {
		case 0:
			ids = append(ids, cid())
		case 1:
			ids = append(ids, cid()+"."+key()+"."+key())
		case 2:
			ids = append(ids, cid()+".."+key())
		case 3:
			ids = append(ids, cid()+"."+key()+".")
		case 4:
			ids = append(ids, key())
		case 5:
			// non-ASCII bytes around the dot
			ids = append(ids, "caf\xc3\xa9"+cid()+".\xff"+key())
		default:
			ids = append(ids, cid()+"."+key())
		}
	}
	return ids
}

// ---- independent reference computations for the direct oracle ---------------------------------

func refReplKey(id string) string {
	for i := len(id) - 1; i >= 0; i-- {
		if id[i] == '.' {
			return id[i+1:]
		}
	}
	return id
}

type member string

func (m member) Id() string        { return string(m) }
func (m member) Capacity() float64 { return 1 }

type refConsts struct{ partitionCount, replicationFactor int }

// refRing: a go-chash ring built by the harness over the sorted sync-node id set only, with the
// ring parameters declared in nodeconf/service.go (the compiled-in constants of the real package).
func refRing(repo refConsts, syncIds []string) (chash.CHash, error) {
	ch, err := chash.New(chash.Config{PartitionCount: uint64(repo.partitionCount), ReplicationFactor: repo.replicationFactor})
	if err != nil {
		return nil, err
	}
	ms := make([]chash.Member, len(syncIds))
	for i, id := range syncIds {
		ms[i] = member(id)
	}
	return ch, ch.AddMembers(ms...)
}

func ids(ms []chash.Member) []string {
	out := make([]string, len(ms))
	for i, m := range ms {
		out[i] = m.Id()
	}
	return out
}

func sorted(l []string) []string {
	o := append([]string{}, l...)
	sort.Strings(o)
	return o
}

func hasDup(l []string) bool {
	s := sorted(l)
	for i := 1; i < len(s); i++ {
		if s[i] == s[i-1] {
			return true
		}
	}
	return false
}

func eq(a, b []string) bool {
	if len(a) != len(b) {
		return false
	}
	for i := range a {
		if a[i] != b[i] {
			return false
		}
	}
	return true
}

func contains(l []string, x string) bool {
	for _, y := range l {
		if x == y {
			return true
		}
	}
	return false
}

// ---- one configuration ------------------------------------------------------------------------

type interner struct {
	m map[string]int
}

func (in *interner) id(s string) int {
	if v, ok := in.m[s]; ok {
		return v
	}
	v := len(in.m) + 1
	in.m[s] = v
	return v
}

func (in *interner) csv(l []string) string {
	if len(l) == 0 {
		return "-"
	}
	p := make([]string, len(l))
	for i, s := range l {
		p[i] = fmt.Sprint(in.id(s))
	}
	return strings.Join(p, ",")
}

func hx(s string) string {
	if s == "" {
		return "-"
	}
	return hex.EncodeToString([]byte(s))
}

func wireCfg(in *interner, nodes []rnc.Node) string {
	if len(nodes) == 0 {
		return "-"
	}
	p := make([]string, len(nodes))
	for i, n := range nodes {
		ts := ""
		for _, t := range n.Types {
			ts += typeCode[t]
		}
		if ts == "" {
			ts = "-"
		}
		p[i] = fmt.Sprintf("%d:%s", in.id(n.PeerId), ts)
	}
	return strings.Join(p, ",")
}

type participant struct {
	self  string
	role  string // "sync" | "other" | "client"
	path  string // which Init path built it
	nodes []rnc.Node
	svc   rnc.Service
}

var initPaths = []string{"fresh", "stored-equal", "stored-merge-node", "stored-merge-addr", "stored-newer", "updated", "stored-older-bundle-current", "stored-older-bundle-older"}

func oneConfig(r *corr.Run, consts refConsts, n, sync int, nIds int, multiPct int) {
	peers := genNodes(r, n, sync)
	// the network needs a coordinator entry for the address-merge path of Init to have work to do
	if len(peers) > 0 && r.Chance(70) {
		k := r.Intn(len(peers))
		if !hasType(peers[k], rnc.NodeTypeCoordinator) {
			peers[k].Types = append(peers[k].Types, rnc.NodeTypeCoordinator)
		}
		if len(peers[k].Addresses) == 0 {
			peers[k].Addresses = []string{"10.9.9.9:4000"}
		}
	}
	base := permuted(r, splitEntries(r, peers, multiPct))
	if len(base) != len(peers) {
		r.Count("cfg.multi-entry-peers")
	}
	in := &interner{m: map[string]int{}}
	syncIds := syncSet(base)
	cfgDesc := fmt.Sprintf("cfg n=%d sync=%d nodes=%s", n, len(syncIds), wireCfg(in, base))
	violate := func(stream, desc string, ops ...string) {
		r.Violate(prop, "", stream, desc, append([]string{cfgDesc}, ops...))
	}

	ref, err := refRing(consts, syncIds)
	if err != nil {
		r.Fatal("reference ring: " + err.Error())
	}
	inBase := func(id string) bool {
		for _, b := range base {
			if b.PeerId == id {
				return true
			}
		}
		return false
	}
	// a stale configuration as an old application build would carry it: another id, a random subset of
	// the current entries plus obsolete tree nodes; its coordinator entries are a subset of the current
	// ones (so Init has nothing to merge)
	staleCfg := func() rnc.Configuration {
		var nodes []rnc.Node
		for _, b := range base {
			if r.Chance(60) || hasType(b, rnc.NodeTypeCoordinator) {
				nodes = append(nodes, b)
			}
		}
		for _, e := range genNodes(r, 1+r.Intn(2), 1+r.Intn(2)) {
			if !inBase(e.PeerId) {
				var ts []rnc.NodeType
				for _, t := range e.Types {
					if t != rnc.NodeTypeCoordinator {
						ts = append(ts, t)
					}
				}
				e.Types = ts
				nodes = append(nodes, e)
			}
		}
		return rnc.Configuration{Id: "old-" + randStr(r, b36, 6), NetworkId: "net", Nodes: permuted(r, nodes)}
	}

	// participants: every peer of the configuration and one client; each sees its own permutation of
	// the entry list, some with extra entries WITHOUT the tree type, each through one of the Init paths
	var parts []*participant
	pathNo := r.Intn(len(initPaths))
	mk := func(self, role string) {
		nodes := permuted(r, base)
		if r.Chance(30) {
			for _, e := range genNodes(r, 1+r.Intn(3), 0) {
				if !inBase(e.PeerId) && e.PeerId != self {
					nodes = append(nodes, e)
				}
			}
			nodes = permuted(r, nodes)
			r.Count("view.extra-nonsync-nodes")
		}
		cur := rnc.Configuration{Id: "conf-" + randStr(r, b36, 6), NetworkId: "net", Nodes: nodes}
		path := initPaths[pathNo%len(initPaths)]
		pathNo++
		var svc rnc.Service
		var err error
		switch path {
		case "fresh":
			svc, _, err = newParticipant(self, cur, nil, nil)
		case "stored-equal":
			svc, _, err = newParticipant(self, cur, &cur, nil)
		case "stored-merge-node":
			// the application knows a coordinator the stored configuration does not list (tree-free entry)
			app := staleCfg()
			e := genNodes(r, 1, 0)[0]
			for inBase(e.PeerId) || e.PeerId == self {
				e = genNodes(r, 1, 0)[0]
			}
			e.Types = []rnc.NodeType{rnc.NodeTypeCoordinator}
			e.Addresses = []string{"10.7.7.7:4100"}
			app.Nodes = permuted(r, append(app.Nodes, e))
			svc, _, err = newParticipant(self, app, &cur, nil)
		case "stored-merge-addr":
			// the application knows a further address of a coordinator listed in the stored configuration
			app := cloneCfg(cur)
			app.Id = "old-" + randStr(r, b36, 6)
			done := false
			for i := range app.Nodes {
				if hasType(app.Nodes[i], rnc.NodeTypeCoordinator) {
					app.Nodes[i].Addresses = append(app.Nodes[i].Addresses, "10.8.8.8:4200")
					done = true
					break
				}
			}
			if !done {
				path = "stored-equal"
			}
			svc, _, err = newParticipant(self, app, &cur, nil)
		case "stored-newer":
			svc, _, err = newParticipant(self, staleCfg(), &cur, nil)
		case "updated":
			svc, _, err = newParticipant(self, staleCfg(), nil, &cur)
		case "stored-older-bundle-current":
			// restart on an older STORED topology while the application bundle already names the network's
			// current configuration: the update loop must ask relative to the ACTIVE (stored) id
			old := staleCfg()
			svc, _, err = newParticipant(self, cur, &old, &cur)
		case "stored-older-bundle-older":
			// stored and bundled configurations are two different old ones
			old := staleCfg()
			svc, _, err = newParticipant(self, staleCfg(), &old, &cur)
		}
		if err != nil {
			violate("nodeconf.build", fmt.Sprintf("participant %s (%s) via %s: %v", role, self, path, err))
			if svc == nil {
				return
			}
		}
		r.Count("init." + path + "." + role)
		parts = append(parts, &participant{self, role, path, svc.Configuration().Nodes, svc})
	}
	seenPeer := map[string]bool{}
	for _, nd := range base {
		if seenPeer[nd.PeerId] {
			continue
		}
		seenPeer[nd.PeerId] = true
		role := "other"
		if contains(syncIds, nd.PeerId) {
			role = "sync"
		}
		mk(nd.PeerId, role)
	}
	mk("12D3KooWclient"+randStr(r, b58, 38), "client")
	if len(parts) == 0 {
		return
	}

	wantLen := consts.replicationFactor
	if len(syncIds) < wantLen {
		wantLen = len(syncIds)
	}
	r.Count(fmt.Sprintf("cfg.sync=%d", min(len(syncIds), 6)))
	r.Count(fmt.Sprintf("cfg.nodes=%d", n))

	// stream nodeconf.sync: which nodes the REAL code put on the ring (union over all partitions)
	// = the model's tree-type filter over the participant's configuration
	for _, p := range parts {
		union := map[string]bool{}
		ch := p.svc.CHash()
		for i := 0; i < ch.PartitionCount(); i++ {
			ms, _ := ch.GetPartitionMembers(i)
			for _, m := range ms {
				union[m.Id()] = true
			}
		}
		var ul []string
		for k := range union {
			ul = append(ul, k)
		}
		ul = sorted(ul)
		op := "sync " + wireCfg(in, p.nodes)
		impl := in.csvSortedInts(ul)
		r.Check(prop, "nodeconf.sync", []string{op}, r.Ask(op), impl)
		if !eq(ul, syncIds) {
			violate("nodeconf.ring-members.oracle", fmt.Sprintf("participant %s via %s: nodes on its ring %v, sync nodes of the configuration (peers with the tree type in any entry) %v", p.role, p.path, ul, syncIds), op)
		}
		if ch.PartitionCount() != consts.partitionCount {
			violate("nodeconf.ring-params.oracle", fmt.Sprintf("ring has %d partitions, service.go declares %d", ch.PartitionCount(), consts.partitionCount))
		}
	}

	bySuffix := map[string][]string{}
	for _, id := range genSpaceIds(r, nIds) {
		key := refReplKey(id)
		want := ids(ref.GetMembers(key)) // function of (sorted sync-node set, suffix) only
		wantSorted := sorted(want)
		idOp := "id " + hx(id)

		// chash properties the Lean theorems assume (go-chash is modelled, not verified)
		if hasDup(want) || len(want) != wantLen {
			violate("chash.assumption", fmt.Sprintf("reference ring returned %v for %d sync nodes (rf %d)", want, len(syncIds), consts.replicationFactor), idOp)
		}
		for _, m := range want {
			if !contains(syncIds, m) {
				violate("chash.assumption", fmt.Sprintf("reference ring returned non-member %s", m), idOp)
			}
		}
		if prev, ok := bySuffix[key]; ok && !eq(prev, wantSorted) {
			violate("chash.assumption", "same key, different members", idOp)
		}
		bySuffix[key] = wantSorted

		// stream nodeconf.replkey
		if got := rnc.ReplKey(id); true {
			op := "replkey " + hx(id)
			r.Check(prop, "nodeconf.replkey", []string{op}, r.Ask(op), hx(got))
			if got != key {
				violate("nodeconf.replkey.oracle", fmt.Sprintf("ReplKey(%q) = %q, the suffix after the last dot is %q", id, got, key), op)
			}
		}

		trace := []string{cfgDesc, idOp}
		var respCount int
		for _, p := range parts {
			var nodeIds []string
			var isResp bool
			var part int
			func() {
				defer func() {
					if x := recover(); x != nil {
						violate("nodeconf.panic", fmt.Sprintf("participant %s: panic %v", p.role, x), idOp)
					}
				}()
				nodeIds = p.svc.NodeIds(id)
				isResp = p.svc.IsResponsible(id)
				part = p.svc.Partition(id)
			}()
			who := fmt.Sprintf("participant %s(%d) via %s", p.role, in.id(p.self), p.path)

			// --- direct oracle -------------------------------------------------------------
			set := append([]string{}, nodeIds...)
			if isResp {
				set = append(set, p.self)
				respCount++
			}
			if !eq(sorted(set), wantSorted) {
				violate("nodeconf.agree.oracle", fmt.Sprintf("%s: responsible set %v (NodeIds %v, IsResponsible %v); the set determined by the sync-node set and the suffix %q is %v",
					who, in.csv(sorted(set)), in.csv(nodeIds), isResp, key, in.csv(wantSorted)), idOp)
			}
			if isResp != contains(want, p.self) {
				violate("nodeconf.isresponsible.oracle", fmt.Sprintf("%s: IsResponsible=%v but membership in the responsible set is %v", who, isResp, contains(want, p.self)), idOp)
			}
			var minus []string
			for _, m := range want {
				if m != p.self {
					minus = append(minus, m)
				}
			}
			if !eq(sorted(nodeIds), sorted(minus)) || hasDup(nodeIds) {
				violate("nodeconf.nodeids.oracle", fmt.Sprintf("%s: NodeIds %v, responsible set minus self is %v", who, in.csv(nodeIds), in.csv(minus)), idOp)
			}
			if refPart := ref.GetPartition(key); part != refPart {
				violate("nodeconf.partition.oracle", fmt.Sprintf("%s: Partition %d, partition of the suffix is %d", who, part, refPart), idOp)
			}

			// --- correspondence with the Lean model: the participant's own ring (as data) for the
			// candidate keys, the model chooses the key and filters
			ch := p.svc.CHash()
			cands := candidateKeys(id)
			tbl := make([]string, len(cands))
			for i, k := range cands {
				tbl[i] = fmt.Sprintf("%s=%d:%s", hx(k), ch.GetPartition(k), in.csv(ids(ch.GetMembers(k))))
			}
			op := fmt.Sprintf("q %d %s %s", in.id(p.self), hx(id), strings.Join(tbl, ";"))
			b := "0"
			if isResp {
				b = "1"
			}
			impl := fmt.Sprintf("%d %s %s", part, in.csv(nodeIds), b)
			r.Check(prop, "nodeconf.query", []string{cfgDesc, op}, r.Ask(op), impl)
			trace = append(trace, op)
			r.Count("ask." + p.role + ".resp=" + b)
		}
		if respCount != wantLen {
			violate("nodeconf.count.oracle", fmt.Sprintf("%d participants report themselves responsible, expected min(rf,#sync)=%d", respCount, wantLen), idOp)
		}
		r.Case(strings.Join(trace, "|"), len(syncIds) >= 2)
		switch {
		case id == "":
			r.Count("id.empty")
		case !strings.Contains(id, "."):
			r.Count("id.nodot")
		case strings.HasSuffix(id, "."):
			r.Count("id.trailing-dot")
		case strings.Count(id, ".") > 1:
			r.Count("id.multi-dot")
		default:
			r.Count("id.cid.key")
		}
		if len(syncIds) >= 4 && strings.Count(id, ".") == 1 && key != "" && r.Chance(20) {
			r.Sample(map[string]any{"cfg": cfgDesc, "id": id, "responsible": in.csv(want)})
		}
	}
}

func (in *interner) csvSortedInts(l []string) string {
	if len(l) == 0 {
		return "-"
	}
	v := make([]int, len(l))
	for i, s := range l {
		v[i] = in.id(s)
	}
	sort.Ints(v)
	p := make([]string, len(v))
	for i, x := range v {
		p[i] = fmt.Sprint(x)
	}
	return strings.Join(p, ",")
}

// candidateKeys: the keys a (possibly wrong) ReplKey could choose; all distinct, the right one included
func candidateKeys(id string) []string {
	c := []string{id}
	add := func(s string) {
		if !contains(c, s) {
			c = append(c, s)
		}
	}
	if i := strings.LastIndex(id, "."); i >= 0 {
		add(id[i+1:])
		add(id[i:])
		add(id[:i])
	}
	if i := strings.Index(id, "."); i >= 0 {
		add(id[i+1:])
		add(id[:i])
	}
	return c
}

func Run(r *corr.Run) {
	r.SetRule("random configurations of 1..12 duplicate-free nodes with arbitrary type mixes (0..n tree nodes, directed at the replication-factor boundary 0,1,2,3,4), every node and one client as participants, each with its own REAL nodeconf.Service (service.Init), its own permutation of the node list and sometimes extra tree-free nodes; 20+ space ids per configuration (no dot, cid.key, dots in the cid part, trailing dot, empty, shared suffixes, non-ASCII bytes); a case = one (configuration, id) asked of every participant, non-trivial when the configuration has >= 2 sync nodes")
	consts := refConsts{partitionCount: rnc.PartitionCount, replicationFactor: rnc.ReplicationFactor}
	nIds := r.Pick(20, 40)
	// guard-directed: every sync count around the replication factor, for several sizes
	for sync := 0; sync <= 5 && r.TimeLeft(); sync++ {
		for _, n := range []int{sync, sync + 1, sync + 3} {
			if n >= 1 && n <= 12 {
				oneConfig(r, consts, n, sync, nIds, 35)
			}
		}
	}
	for k := 0; k < r.Pick(80, 1500) && r.TimeLeft(); k++ {
		n := 1 + r.Intn(12)
		oneConfig(r, consts, n, r.Intn(n+1), nIds, []int{0, 30, 80}[r.Intn(3)])
	}
}
