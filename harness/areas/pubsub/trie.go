package pubsub

import (
	"fmt"
	"sort"
	"strings"

	real "github.com/anyproto/any-sync/commonspace/pubsub"

	"verifharness/internal/corr"
)

// ---------------------------------------------------------------------------------------------
// naive specification (written from the property text, not from the code)
// ---------------------------------------------------------------------------------------------

const (
	specMaxTopicLen = 256
	specMaxSegments = 16
)

// naiveSplit: '/'-separated segments; beyond 16 separators the remainder stays one segment.
func naiveSplit(s string) []string { return strings.SplitN(s, "/", specMaxSegments+1) }

func naiveStructOK(s string) bool {
	if len(s) == 0 || len(s) > specMaxTopicLen {
		return false
	}
	segs := strings.Split(s, "/")
	if len(segs) > specMaxSegments {
		return false
	}
	for _, g := range segs {
		if g == "" {
			return false
		}
	}
	return true
}

func naiveValidTopic(s string) bool {
	return naiveStructOK(s) && !strings.ContainsAny(s, "*>")
}

func naiveValidPattern(s string) bool {
	if !naiveStructOK(s) {
		return false
	}
	segs := strings.Split(s, "/")
	for i, g := range segs {
		switch {
		case g == "*":
		case g == ">":
			if i != len(segs)-1 {
				return false
			}
		case strings.ContainsAny(g, "*>"):
			return false
		}
	}
	return true
}

func naiveOwner(topic string) string {
	segs := naiveSplit(topic)
	if len(segs) < 2 || segs[0] != "acc" {
		return ""
	}
	return segs[len(segs)-1]
}

// naiveMatch: segment by segment, `*` = exactly one segment, trailing `>` = one or more.
func naiveMatch(pat, topic string) bool {
	return naiveMatchSegs(strings.Split(pat, "/"), strings.Split(topic, "/"))
}

func naiveMatchSegs(ps, ts []string) bool {
	if len(ps) == 0 {
		return len(ts) == 0
	}
	if len(ps) == 1 && ps[0] == ">" {
		return len(ts) >= 1
	}
	if len(ts) == 0 {
		return false
	}
	if ps[0] == "*" || (ps[0] != ">" && ps[0] == ts[0]) {
		return naiveMatchSegs(ps[1:], ts[1:])
	}
	return false
}

// ---------------------------------------------------------------------------------------------
// wire helpers
// ---------------------------------------------------------------------------------------------

func tok(s string) string { return "=" + s }

func toks(l []string) string {
	if len(l) == 0 {
		return "-"
	}
	p := make([]string, len(l))
	for i, s := range l {
		p[i] = tok(s)
	}
	return strings.Join(p, " ")
}

func b01(b bool) string {
	if b {
		return "1"
	}
	return "0"
}

func showTree(nodes []real.VerifNode, mapSeg func(string) string) string {
	type kn struct {
		k string
		n real.VerifNode
	}
	l := make([]kn, len(nodes))
	for i, n := range nodes {
		l[i] = kn{mapSeg(n.Key), n}
	}
	sort.Slice(l, func(i, j int) bool { return l[i].k < l[j].k })
	var b strings.Builder
	b.WriteByte('(')
	for i, e := range l {
		if i > 0 {
			b.WriteByte(' ')
		}
		fmt.Fprintf(&b, "\"%s\"#%d=\"%s\"", e.k, e.n.Refs, mapPattern(e.n.Pattern, mapSeg))
		b.WriteString(showTree(e.n.Kids, mapSeg))
	}
	b.WriteByte(')')
	return b.String()
}

func mapPattern(p string, mapSeg func(string) string) string {
	segs := strings.Split(p, "/")
	for i, g := range segs {
		segs[i] = mapSeg(g)
	}
	return strings.Join(segs, "/")
}

func idSeg(s string) string { return s }

// treeFacts walks a structural trie copy: refcount per stored pattern, whether every stored
// pattern sits at its own path, and whether a childless node without references exists.
func treeFacts(nodes []real.VerifNode, path []string, refs map[string]int) (pathOK, pruned bool) {
	pathOK, pruned = true, true
	for _, n := range nodes {
		p := append(append([]string{}, path...), n.Key)
		if n.Refs < 0 {
			pathOK = false
		}
		if n.Refs > 0 {
			if n.Pattern != strings.Join(p, "/") {
				pathOK = false
			}
			refs[n.Pattern] += n.Refs
		} else if n.Pattern != "" {
			pathOK = false
		}
		if n.Refs == 0 && len(n.Kids) == 0 {
			pruned = false
		}
		po, pr := treeFacts(n.Kids, p, refs)
		pathOK, pruned = pathOK && po, pruned && pr
	}
	return
}

// ---------------------------------------------------------------------------------------------
// stream (i): trie / topic level
// ---------------------------------------------------------------------------------------------

var segAlphabet = []string{"a", "b", "acc", "*", ">", ""}

func allStrings(maxSegs int) []string {
	var out []string
	var rec func(prefix []string, n int)
	rec = func(prefix []string, n int) {
		if len(prefix) == n {
			out = append(out, strings.Join(prefix, "/"))
			return
		}
		for _, g := range segAlphabet {
			rec(append(prefix, g), n)
		}
	}
	for n := 1; n <= maxSegs; n++ {
		rec(nil, n)
	}
	return out
}

func boundaryStrings() []string {
	rep := func(s string, n int) string { return strings.Repeat(s, n) }
	segsN := func(n int) string { return strings.TrimSuffix(rep("a/", n), "/") }
	return []string{
		rep("a", 255), rep("a", 256), rep("a", 257), rep("ab/", 85) + "a", rep("ab/", 85) + "ab",
		segsN(15), segsN(16), segsN(17), segsN(18), segsN(16) + "/", segsN(15) + "/*", segsN(15) + "/>", segsN(16) + "/>",
		segsN(14) + "/>/a", "acc/" + segsN(15), "acc/" + segsN(16),
		"a*", "*a", "a>", ">a", "**", ">>", "*>", "a/b*", "a/>b/c", "a/*/>", "*/*/*", ">/>", "a/b/>/", "/", "//", "///",
		"acc", "acc/", "/acc/a", "acc/a/b/acc", "acc/*", "acc/>", "Acc/a", "acc-/a", "a.b", "a_b/c",
		rep("a", 250) + "/" + rep("b", 5), rep("a", 250) + "/" + rep("b", 6),
	}
}

func sortedCopy(l []string) []string {
	c := append([]string{}, l...)
	sort.Strings(c)
	return c
}

func hasDup(l []string) bool {
	seen := map[string]bool{}
	for _, s := range l {
		if seen[s] {
			return true
		}
		seen[s] = true
	}
	return false
}

func checkValidators(r *corr.Run, s string) {
	vt, vp := real.ValidateTopic(s) == nil, real.ValidatePattern(s) == nil
	split := real.VerifSplitTopic(s)
	owner := real.TopicOwner(s)
	op := "val " + tok(s)
	impl := fmt.Sprintf("t%s p%s owner=%s split=%d:%s", b01(vt), b01(vp), owner, len(split), strings.Join(split, ","))
	if useModel {
		r.Check("C17", "pubsub.validate", []string{op}, r.Ask(op), impl)
	}
	if vt != naiveValidTopic(s) {
		r.Violate("C17", "", "pubsub.validate.oracle", fmt.Sprintf("ValidateTopic(%q) accepts=%v, grammar says %v", s, vt, naiveValidTopic(s)), []string{op})
	}
	if vp != naiveValidPattern(s) {
		r.Violate("C17", "", "pubsub.validate.oracle", fmt.Sprintf("ValidatePattern(%q) accepts=%v, grammar says %v", s, vp, naiveValidPattern(s)), []string{op})
	}
	if strings.Join(split, "\x00") != strings.Join(naiveSplit(s), "\x00") {
		r.Violate("C17", "", "pubsub.split.oracle", fmt.Sprintf("splitTopic(%q) = %q", s, split), []string{op})
	}
	if strings.Join(split, "/") != s {
		r.Violate("C17", "", "pubsub.split.oracle", fmt.Sprintf("join(splitTopic(%q)) = %q", s, strings.Join(split, "/")), []string{op})
	}
	if vt && owner != naiveOwner(s) {
		r.Violate("C17", "", "pubsub.owner.oracle", fmt.Sprintf("TopicOwner(%q) = %q, want %q", s, owner, naiveOwner(s)), []string{op})
	}
	r.Count("val.topic_" + b01(vt) + ".pattern_" + b01(vp))
	r.Case(op, len(split) >= 2)
}

// trieSession drives one real trie, the model's trie and the naive multiset side by side.
type trieSession struct {
	r      *corr.Run
	t      *real.VerifTrie
	counts map[string]int
	ops    []string
	model  bool
	oracle bool // naive oracle applies (only valid patterns were added)
}

func newTrieSession(r *corr.Run, model bool) *trieSession {
	s := &trieSession{r: r, t: real.NewVerifTrie(), counts: map[string]int{}, model: model && useModel, oracle: true}
	s.ask("tnew", "ok")
	return s
}

func (s *trieSession) ask(op, impl string) {
	s.ops = append(s.ops, op)
	if s.model {
		s.r.Check("C17", "pubsub.trie", s.trace(), s.r.Ask(op), impl)
	}
}

func (s *trieSession) trace() []string {
	if len(s.ops) > 80 {
		return append([]string{fmt.Sprintf("… %d earlier ops …", len(s.ops)-80)}, s.ops[len(s.ops)-80:]...)
	}
	return append([]string{}, s.ops...)
}

func (s *trieSession) violate(desc string) {
	s.r.Violate("C17", "", "pubsub.trie.oracle", desc, s.trace())
}

func (s *trieSession) distinct() int {
	n := 0
	for _, c := range s.counts {
		if c > 0 {
			n++
		}
	}
	return n
}

func (s *trieSession) add(p string) {
	if !naiveValidPattern(p) {
		s.oracle = false
	}
	got := s.t.Add(p)
	s.ask("tadd "+tok(p), fmt.Sprintf("%s len=%d", b01(got), s.t.Len()))
	want := s.counts[p] == 0
	s.counts[p]++
	if s.oracle {
		if got != want {
			s.violate(fmt.Sprintf("Add(%q) returned %v, multiset says new=%v", p, got, want))
		}
		if s.t.Len() != s.distinct() {
			s.violate(fmt.Sprintf("after Add(%q): Len=%d, distinct registered patterns=%d", p, s.t.Len(), s.distinct()))
		}
	}
	s.r.Count("trie.add.new_" + b01(got))
}

func (s *trieSession) remove(p string) {
	got := s.t.Remove(p)
	s.ask("trem "+tok(p), fmt.Sprintf("%s len=%d", b01(got), s.t.Len()))
	want := s.counts[p] == 1
	if s.counts[p] > 0 {
		s.counts[p]--
		s.r.Count("trie.remove.present.last_" + b01(want))
	} else {
		s.r.Count("trie.remove.absent")
	}
	if s.oracle {
		if got != want {
			s.violate(fmt.Sprintf("Remove(%q) returned %v, multiset says last=%v", p, got, want))
		}
		if s.t.Len() != s.distinct() {
			s.violate(fmt.Sprintf("after Remove(%q): Len=%d, distinct registered patterns=%d", p, s.t.Len(), s.distinct()))
		}
	}
}

func (s *trieSession) match(topic string) {
	got := s.t.Match(topic)
	s.ask("tmatch "+tok(topic), toks(got))
	if s.oracle && naiveValidTopic(topic) {
		var want []string
		for p, c := range s.counts {
			if c > 0 && naiveMatch(p, topic) {
				want = append(want, p)
			}
		}
		sort.Strings(want)
		if hasDup(got) {
			s.violate(fmt.Sprintf("Match(%q) reports a pattern twice: %q", topic, got))
		}
		if strings.Join(sortedCopy(got), " ") != strings.Join(want, " ") {
			s.violate(fmt.Sprintf("Match(%q) = %q, matching rule gives %q", topic, sortedCopy(got), want))
		}
	}
	s.r.Count(fmt.Sprintf("trie.match.hits_%d", min(len(got), 4)))
}

func (s *trieSession) dump() {
	tree := s.t.Tree()
	s.ask("tdump", showTree(tree, idSeg))
	if !s.oracle {
		return
	}
	refs := map[string]int{}
	pathOK, pruned := treeFacts(tree, nil, refs)
	if !pathOK {
		s.violate("a trie node stores a pattern that is not its own path / negative refcount: " + showTree(tree, idSeg))
	}
	if !pruned {
		s.violate("an unreferenced childless node was left in the trie: " + showTree(tree, idSeg))
	}
	for p, c := range s.counts {
		if refs[p] != c {
			s.violate(fmt.Sprintf("refcount of %q is %d, multiset says %d", p, refs[p], c))
		}
	}
	for p, c := range refs {
		if s.counts[p] != c {
			s.violate(fmt.Sprintf("refcount of %q is %d, multiset says %d", p, c, s.counts[p]))
		}
	}
	if s.distinct() == 0 && len(tree) != 0 {
		s.violate("all patterns withdrawn but the trie still has nodes: " + showTree(tree, idSeg))
	}
}

func (s *trieSession) finish(nontrivial bool) {
	s.r.Case(strings.Join(s.ops, ";"), nontrivial)
}

func runTrieStream(r *corr.Run) {
	all := allStrings(4)
	all = append(all, boundaryStrings()...)
	var validPats, validTopics []string
	for _, s := range all {
		checkValidators(r, s)
		if naiveValidPattern(s) && len(s) < 40 {
			validPats = append(validPats, s)
		}
		if naiveValidTopic(s) {
			validTopics = append(validTopics, s)
		}
	}
	r.CountN("trie.exhaustive.strings", len(all))
	r.CountN("trie.exhaustive.valid_patterns", len(validPats))

	// every (valid pattern, string) pair on a singleton trie: real trie vs naive rule (no model)
	pairs, hits := 0, 0
	for _, p := range validPats {
		t := real.NewVerifTrie()
		t.Add(p)
		for _, topic := range all {
			got := t.Match(topic)
			pairs++
			if !naiveValidTopic(topic) {
				continue
			}
			want := naiveMatch(p, topic)
			if want {
				hits++
			}
			if (len(got) == 1 && got[0] == p) != want || len(got) > 1 {
				r.Violate("C17", "", "pubsub.trie.oracle", fmt.Sprintf("trie{%q}.Match(%q) = %q, matching rule says %v", p, topic, got, want),
					[]string{"tnew", "tadd " + tok(p), "tmatch " + tok(topic)})
			}
		}
		if !t.Remove(p) || t.Len() != 0 || len(t.Tree()) != 0 {
			r.Violate("C17", "", "pubsub.trie.oracle", fmt.Sprintf("trie{%q} not empty after Remove", p), []string{"tnew", "tadd " + tok(p), "trem " + tok(p)})
		}
	}
	r.CountN("trie.exhaustive.pairs", pairs)
	r.CountN("trie.exhaustive.pair_hits", hits)

	// the full trie: all valid patterns at once (some twice), every string matched, model in step
	s := newTrieSession(r, true)
	for i, p := range validPats {
		s.add(p)
		if i%7 == 0 {
			s.add(p)
		}
	}
	for _, topic := range all {
		if len(topic) < 60 {
			s.match(topic)
		}
	}
	s.dump()
	order := r.Perm(len(validPats))
	for k, i := range order {
		s.remove(validPats[i])
		if i%7 == 0 && k%2 == 0 {
			s.remove(validPats[i])
		}
		if k%97 == 0 {
			s.match(validTopics[r.Intn(len(validTopics))])
		}
	}
	for i, p := range validPats {
		if i%7 == 0 {
			s.remove(p) // second reference, or an absent pattern
		}
	}
	s.dump()
	s.finish(true)
	r.SetExhaustive(true)

	// random add/remove sequences with refcounts over a small pool
	nSeq := r.Pick(150, 4000)
	for k := 0; k < nSeq && r.TimeLeft(); k++ {
		invalidToo := k%5 == 4
		randomTrieSequence(r, validPats, validTopics, all, invalidToo)
	}
}

func randomTrieSequence(r *corr.Run, validPats, validTopics, all []string, invalidToo bool) {
	s := newTrieSession(r, true)
	poolN := 2 + r.Intn(8)
	pool := make([]string, poolN)
	for i := range pool {
		switch {
		case invalidToo && r.Chance(30):
			pool[i] = all[r.Intn(len(all))]
		case r.Chance(50):
			// close relatives: share prefixes so nodes are shared and pruning matters
			base := []string{"a", "a/b", "a/b/a", "a/*", "a/>", "a/*/a", "a/b/>", "*", ">", "*/b", "*/>", "*/*", "a/b/*", "acc/a", "acc/*", "acc/>"}
			pool[i] = base[r.Intn(len(base))]
		default:
			pool[i] = validPats[r.Intn(len(validPats))]
		}
	}
	topicsNear := []string{"a", "b", "a/b", "a/a", "a/b/a", "a/b/b", "b/b", "a/b/a/b", "acc/a", "acc/b/a", "acc"}
	n := 5 + r.Intn(40)
	for i := 0; i < n; i++ {
		p := pool[r.Intn(len(pool))]
		switch x := r.Intn(100); {
		case x < 40:
			s.add(p)
		case x < 75:
			s.remove(p)
		case x < 95:
			if r.Chance(60) {
				s.match(topicsNear[r.Intn(len(topicsNear))])
			} else if invalidToo && r.Chance(40) {
				s.match(all[r.Intn(len(all))])
			} else {
				s.match(validTopics[r.Intn(len(validTopics))])
			}
		default:
			s.dump()
		}
	}
	// withdraw everything that is left, in random order, then the trie must be empty
	var left []string
	for p, c := range s.counts {
		for i := 0; i < c; i++ {
			left = append(left, p)
		}
	}
	sort.Strings(left)
	for _, i := range r.Perm(len(left)) {
		s.remove(left[i])
	}
	s.dump()
	if s.t.Len() != 0 {
		s.violate(fmt.Sprintf("Len=%d after every reference was withdrawn", s.t.Len()))
	}
	s.finish(n >= 10)
	if len(s.ops) > 20 {
		r.Sample(map[string]any{"stream": "pubsub.trie", "ops": s.ops[:20]})
	}
}
