package pubsub

import (
	"context"
	"errors"
	"fmt"
	"io"
	"sync"
	"time"

	"storj.io/drpc"

	"github.com/anyproto/any-sync/commonspace/pubsub/pubsubproto"
	"github.com/anyproto/any-sync/net/peer"
	"github.com/anyproto/any-sync/util/crypto"
)

// hangTimeout only detects hangs (a deadlocked handler); nothing asserts on elapsed time.
const hangTimeout = 20 * time.Second

// fakeStream is a harness-owned drpc.Stream. The read side is driven message by message:
// MsgRecv announces on `idle` that the previous message has been handled completely (the pool's
// readLoop is back in MsgRecv) and then blocks until the harness pushes the next frame.
type fakeStream struct {
	ctx    context.Context
	cancel context.CancelFunc
	in     chan *pubsubproto.PubSubMessage
	idle   chan struct{}

	mu       sync.Mutex
	sent     []*pubsubproto.PubSubMessage
	failSend bool
	noIdle   bool // outbound stream owned by the pool: nobody paces its reader
	closed   chan struct{}
	once     sync.Once
}

func newFakeStream(ctx context.Context) *fakeStream {
	c, cancel := context.WithCancel(ctx)
	return &fakeStream{
		ctx: c, cancel: cancel,
		in:     make(chan *pubsubproto.PubSubMessage),
		idle:   make(chan struct{}),
		closed: make(chan struct{}),
	}
}

func (f *fakeStream) Context() context.Context { return f.ctx }

func (f *fakeStream) MsgSend(msg drpc.Message, _ drpc.Encoding) error {
	f.mu.Lock()
	defer f.mu.Unlock()
	if f.failSend {
		return errors.New("fake: send failed")
	}
	m, ok := msg.(*pubsubproto.PubSubMessage)
	if !ok {
		return fmt.Errorf("fake: unexpected message type %T", msg)
	}
	// wire round trip: what the remote side would decode
	b, err := m.MarshalVT()
	if err != nil {
		return err
	}
	cp := &pubsubproto.PubSubMessage{}
	if err = cp.UnmarshalVT(b); err != nil {
		return err
	}
	f.sent = append(f.sent, cp)
	return nil
}

func (f *fakeStream) MsgRecv(msg drpc.Message, _ drpc.Encoding) error {
	if !f.noIdle {
		select {
		case f.idle <- struct{}{}:
		case <-time.After(10 * hangTimeout):
			return errors.New("fake: nobody waits for idle")
		}
	}
	m, ok := <-f.in
	if !ok {
		return io.EOF
	}
	b, err := m.MarshalVT()
	if err != nil {
		return err
	}
	return msg.(*pubsubproto.PubSubMessage).UnmarshalVT(b)
}

func (f *fakeStream) CloseSend() error { return nil }

func (f *fakeStream) Close() error {
	f.once.Do(func() { close(f.closed) })
	return nil
}

// take returns and clears the frames written to this stream so far.
func (f *fakeStream) take() []*pubsubproto.PubSubMessage {
	f.mu.Lock()
	defer f.mu.Unlock()
	out := f.sent
	f.sent = nil
	return out
}

func (f *fakeStream) setFailSend(b bool) {
	f.mu.Lock()
	f.failSend = b
	f.mu.Unlock()
}

// fakeMembership: per space, per account id.
type fakeMembership struct {
	mu      sync.Mutex
	allowed map[string]map[string]bool
}

func (f *fakeMembership) set(space, account string, v bool) {
	f.mu.Lock()
	defer f.mu.Unlock()
	if f.allowed == nil {
		f.allowed = map[string]map[string]bool{}
	}
	if f.allowed[space] == nil {
		f.allowed[space] = map[string]bool{}
	}
	f.allowed[space][account] = v
}

func (f *fakeMembership) is(space, account string) bool {
	f.mu.Lock()
	defer f.mu.Unlock()
	return f.allowed[space][account]
}

func (f *fakeMembership) CheckMember(_ context.Context, spaceId string, identity crypto.PubKey) error {
	if f.is(spaceId, identity.Account()) {
		return nil
	}
	return errors.New("not a member")
}

// fakeRelay: responsibility per space (default true), node peers, one "other responsible" peer.
type fakeRelay struct {
	mu        sync.Mutex
	notResp   map[string]bool
	nodePeers map[string]bool
	other     peer.Peer
	calls     int
}

func (f *fakeRelay) IsResponsible(spaceId string) bool {
	f.mu.Lock()
	defer f.mu.Unlock()
	return !f.notResp[spaceId]
}

func (f *fakeRelay) IsResponsibleNode(_, peerId string) bool {
	f.mu.Lock()
	defer f.mu.Unlock()
	return f.nodePeers[peerId]
}

func (f *fakeRelay) OtherResponsiblePeers(context.Context, string) ([]peer.Peer, error) {
	f.mu.Lock()
	defer f.mu.Unlock()
	f.calls++
	if f.other == nil {
		return nil, nil
	}
	return []peer.Peer{f.other}, nil
}

func (f *fakeRelay) takeCalls() int {
	f.mu.Lock()
	defer f.mu.Unlock()
	n := f.calls
	f.calls = 0
	return n
}

// fakePeer hands the pool a harness-owned outbound stream (the "other responsible node").
type fakePeer struct {
	id     string
	stream *fakeStream
}

func (p *fakePeer) Id() string               { return p.id }
func (p *fakePeer) Context() context.Context { return peer.CtxWithPeerId(context.Background(), p.id) }
func (p *fakePeer) AcquireDrpcConn(context.Context) (drpc.Conn, error) {
	return &fakeConn{p: p}, nil
}
func (p *fakePeer) ReleaseDrpcConn(context.Context, drpc.Conn) {}
func (p *fakePeer) DoDrpc(ctx context.Context, do func(conn drpc.Conn) error) error {
	return do(&fakeConn{p: p})
}
func (p *fakePeer) IsClosed() bool                       { return false }
func (p *fakePeer) CloseChan() <-chan struct{}           { return nil }
func (p *fakePeer) SetTTL(time.Duration)                 {}
func (p *fakePeer) TryClose(time.Duration) (bool, error) { return false, nil }
func (p *fakePeer) Close() error                         { return nil }

type fakeConn struct{ p *fakePeer }

func (c *fakeConn) Close() error            { return nil }
func (c *fakeConn) Closed() <-chan struct{} { return nil }
func (c *fakeConn) Invoke(context.Context, string, drpc.Encoding, drpc.Message, drpc.Message) error {
	return errors.New("fake: invoke unsupported")
}
func (c *fakeConn) NewStream(context.Context, string, drpc.Encoding) (drpc.Stream, error) {
	return c.p.stream, nil
}
