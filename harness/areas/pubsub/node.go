package pubsub

import (
	"bytes"
	"context"
	"fmt"
	"io"
	"sort"
	"strings"
	"time"

	"github.com/anyproto/any-sync/app"
	"github.com/anyproto/any-sync/commonspace/object/accountdata"
	real "github.com/anyproto/any-sync/commonspace/pubsub"
	"github.com/anyproto/any-sync/commonspace/pubsub/pubsubproto"
	"github.com/anyproto/any-sync/net/peer"
	"github.com/anyproto/any-sync/net/streampool"
	"github.com/anyproto/any-sync/testutil/accounttest"
	"github.com/anyproto/any-sync/util/crypto"

	"verifharness/internal/corr"
)

// ---------------------------------------------------------------------------------------------
// accounts (real Ed25519 keys; the line protocol and all canonical output use the tokens A0..)
// ---------------------------------------------------------------------------------------------

type acct struct {
	tok   string
	keys  *accountdata.AccountKeys
	pub   crypto.PubKey
	id    string // real account id (the owner segment of acc/ topics)
	ident []byte // marshalled public key = the handshake-proven identity bytes
}

type randReader struct{ r *corr.Run }

func (rr randReader) Read(p []byte) (int, error) {
	for i := range p {
		p[i] = byte(rr.r.Intn(256))
	}
	return len(p), nil
}

func newAccts(r *corr.Run, n int) []*acct {
	out := make([]*acct, n)
	for i := range out {
		pk, _, err := crypto.GenerateEd25519Key(randReader{r})
		if err != nil {
			r.Fatal("keygen: " + err.Error())
		}
		sk, _, err := crypto.GenerateEd25519Key(randReader{r})
		if err != nil {
			r.Fatal("keygen: " + err.Error())
		}
		keys := accountdata.New(pk, sk)
		ident, err := sk.GetPublic().Marshall()
		if err != nil {
			r.Fatal("marshal identity: " + err.Error())
		}
		out[i] = &acct{tok: fmt.Sprintf("A%d", i), keys: keys, pub: sk.GetPublic(), id: sk.GetPublic().Account(), ident: ident}
	}
	return out
}

type names struct {
	accts  []*acct
	toReal map[string]string
	toTok  map[string]string
}

func newNames(accts []*acct) *names {
	n := &names{accts: accts, toReal: map[string]string{}, toTok: map[string]string{}}
	for _, a := range accts {
		n.toReal[a.tok] = a.id
		n.toTok[a.id] = a.tok
	}
	return n
}

func (n *names) segReal(s string) string {
	if v, ok := n.toReal[s]; ok {
		return v
	}
	return s
}

func (n *names) segTok(s string) string {
	if v, ok := n.toTok[s]; ok {
		return v
	}
	return s
}

// real turns a symbolic topic/pattern (segments A0.. stand for account ids) into the real string.
func (n *names) real(sym string) string { return mapPattern(sym, n.segReal) }
func (n *names) sym(realStr string) string { return mapPattern(realStr, n.segTok) }

func (n *names) byTok(t string) *acct {
	for _, a := range n.accts {
		if a.tok == t {
			return a
		}
	}
	return nil
}

var garbageIdentity = []byte{0xff, 0x01, 0x02}

// identity token: A<k> | "-" (absent / empty) | "!" (bytes that are not a public key)
func (n *names) identBytes(t string) []byte {
	switch t {
	case "-":
		return nil
	case "!":
		return garbageIdentity
	}
	return n.byTok(t).ident
}

// ---------------------------------------------------------------------------------------------
// the serving world: one real pubsub service in the relay role
// ---------------------------------------------------------------------------------------------

const (
	capPerSpace  = 3
	capPerStream = 4
	rateBurst    = 4
	maxPayload   = 64
	fwdPeerId    = "NF"
)

type nstream struct {
	sid    uint32
	peer   string
	ident  string
	fs     *fakeStream
	done   chan error
	inPool bool // still registered in the pool (not closed / killed)
	reader bool // readLoop still alive (frames can still be pushed)
}

type nodeWorld struct {
	r      *corr.Run
	nm     *names
	svc    real.Service
	app    *app.App
	pool   streampool.StreamPool
	mem    *fakeMembership
	relay  *fakeRelay
	fwd    *fakeStream
	fwdSid uint32
	st     map[uint32]*nstream
	ops    []string
	spec   *nodeSpec
	msgSeq int
	hooks  *hookObs
	race   *raceArm
	lastObs observation // what the last publish produced (deliveries, forwards)

	zeroAccept bool // the case contained a subscribe that registered nothing although it passed all checks
}

func newNodeWorld(r *corr.Run, accts []*acct) *nodeWorld {
	w := &nodeWorld{r: r, nm: newNames(accts), mem: &fakeMembership{}, st: map[uint32]*nstream{}}
	w.relay = &fakeRelay{notResp: map[string]bool{}, nodePeers: map[string]bool{}}
	w.fwd = newFakeStream(peer.CtxWithPeerId(context.Background(), fwdPeerId))
	w.fwd.noIdle = true
	w.relay.other = &fakePeer{id: fwdPeerId, stream: w.fwd}
	w.svc = real.New(real.Deps{
		Membership: w.mem,
		Relay:      w.relay,
		Config: real.Config{
			MaxPayloadSize:       maxPayload,
			MaxPatternsPerStream: capPerStream,
			MaxPatternsPerSpace:  capPerSpace,
			PublishRps:           1e-9,
			PublishBurst:         rateBurst,
			DialQueueWorkers:     1, // FIFO dial pool: a marker task is a barrier
		},
	})
	nodeKeys := accts[len(accts)-1].keys // the node's own account is irrelevant on the serving side
	w.app = new(app.App)
	w.app.Register(accounttest.NewWithAcc(nodeKeys)).Register(w.svc)
	if err := w.app.Start(context.Background()); err != nil {
		r.Fatal("app start: " + err.Error())
	}
	w.pool = real.VerifPool(w.svc) // the real pool: exports and barriers talk to it directly
	w.installSchedulePoints()       // the service itself now goes through the schedule-point wrapper
	w.spec = newNodeSpec()
	w.emit(fmt.Sprintf("nnew %d %d %d", capPerSpace, capPerStream, rateBurst), "ok")
	return w
}

func (w *nodeWorld) emit(op, impl string) {
	w.ops = append(w.ops, op)
	if useModel {
		w.r.Check("C17", "pubsub.node", w.trace(), w.r.Ask(op), impl)
	}
}

func (w *nodeWorld) trace() []string { return append([]string{}, w.ops...) }

func (w *nodeWorld) violate(sig, desc string) {
	w.r.Violate("C17", sig, "pubsub.node.oracle", desc, w.trace())
}

func (w *nodeWorld) waitIdle(s *nstream, what string) {
	select {
	case <-s.fs.idle:
	case <-time.After(hangTimeout):
		w.r.Fatal(fmt.Sprintf("hang: stream %d did not return to MsgRecv after %s; ops=%v", s.sid, what, w.ops))
	}
}

// settle waits until everything the last operation caused has become observable:
// the dial pool is drained (FIFO, one worker) and every written frame has been sent.
func (w *nodeWorld) settle() {
	ch := make(chan struct{})
	if err := w.pool.Send(context.Background(), nil, func(context.Context) ([]peer.Peer, error) {
		close(ch)
		return nil, nil
	}); err != nil {
		w.r.Fatal("dial barrier: " + err.Error())
	}
	select {
	case <-ch:
	case <-time.After(hangTimeout):
		w.r.Fatal(fmt.Sprintf("hang: dial pool does not drain; ops=%v", w.ops))
	}
	deadline := time.Now().Add(hangTimeout)
	for streampool.VerifPending(w.pool) != 0 {
		if time.Now().After(deadline) {
			w.r.Fatal(fmt.Sprintf("hang: write queues do not drain; ops=%v", w.ops))
		}
		time.Sleep(20 * time.Microsecond)
	}
}

func (w *nodeWorld) push(s *nstream, m *pubsubproto.PubSubMessage, what string) {
	select {
	case s.fs.in <- m:
	case <-time.After(hangTimeout):
		w.r.Fatal(fmt.Sprintf("hang: stream %d does not read (%s); ops=%v", s.sid, what, w.ops))
	}
	w.waitIdle(s, what)
}

func (w *nodeWorld) poolIds() map[uint32]streampool.VerifStream { return streampool.VerifStreams(w.pool) }

// ---- observations -----------------------------------------------------------------------------

type delivered struct {
	sid uint32
	p   *pubsubproto.Publish
}

type observation struct {
	deliveries []delivered
	forwards   []*pubsubproto.Publish
	statuses   []string
}

func (w *nodeWorld) sids() []uint32 {
	ids := make([]uint32, 0, len(w.st))
	for id := range w.st {
		ids = append(ids, id)
	}
	sort.Slice(ids, func(i, j int) bool { return ids[i] < ids[j] })
	return ids
}

func (w *nodeWorld) collect() observation {
	var o observation
	for _, id := range w.sids() {
		for _, m := range w.st[id].fs.take() {
			switch {
			case m.GetPublish() != nil:
				o.deliveries = append(o.deliveries, delivered{id, m.GetPublish()})
			case m.GetStatus() != nil:
				st := m.GetStatus()
				tp := make([]string, len(st.Topics))
				for i, t := range st.Topics {
					tp[i] = w.nm.sym(t)
				}
				mid := "-"
				if len(st.MsgId) > 0 {
					mid = "m"
				}
				o.statuses = append(o.statuses, fmt.Sprintf("%d:%s:%s:%s:%s", id, st.Code.String(), st.SpaceId, strings.Join(tp, ","), mid))
			default:
				o.statuses = append(o.statuses, fmt.Sprintf("%d:unexpected-frame", id))
			}
		}
	}
	for _, m := range w.fwd.take() {
		if p := m.GetPublish(); p != nil {
			o.forwards = append(o.forwards, p)
		}
	}
	return o
}

func (o observation) String() string {
	cnt := map[uint32]int{}
	for _, d := range o.deliveries {
		cnt[d.sid]++
	}
	ids := make([]uint32, 0, len(cnt))
	for id := range cnt {
		ids = append(ids, id)
	}
	sort.Slice(ids, func(i, j int) bool { return ids[i] < ids[j] })
	dp := make([]string, len(ids))
	for i, id := range ids {
		dp[i] = fmt.Sprintf("%dx%d", id, cnt[id])
	}
	fp := make([]string, len(o.forwards))
	for i, p := range o.forwards {
		fp[i] = "r" + b01(p.Relayed)
	}
	return fmt.Sprintf("D[%s] F[%s] ST[%s]", strings.Join(dp, ","), strings.Join(fp, ","), strings.Join(o.statuses, " "))
}

// state renders the three bookkeeping views canonically (account ids as tokens, everything sorted).
type views struct {
	snap real.VerifSnapshot
	tags map[string][]uint32
	pool map[uint32]streampool.VerifStream
}

func (w *nodeWorld) views() views {
	return views{snap: real.VerifServingSnapshot(w.svc), tags: streampool.VerifTags(w.pool), pool: w.poolIds()}
}

func (w *nodeWorld) stateString(v views) string {
	var rp []string
	for sp, si := range v.snap.Remote {
		rp = append(rp, fmt.Sprintf("%s:%d%s", tok(sp), si.Len, showTree(si.Tree, w.nm.segTok)))
	}
	sort.Strings(rp)
	var ids []uint32
	for id := range v.snap.Streams {
		ids = append(ids, id)
	}
	sort.Slice(ids, func(i, j int) bool { return ids[i] < ids[j] })
	sp := make([]string, len(ids))
	for i, id := range ids {
		si := v.snap.Streams[id]
		var by []string
		for space, pats := range si.BySpace {
			ps := make([]string, len(pats))
			for k, p := range pats {
				ps[k] = w.nm.sym(p)
			}
			sort.Strings(ps)
			by = append(by, tok(space)+"{"+strings.Join(ps, ",")+"}")
		}
		sort.Strings(by)
		sp[i] = fmt.Sprintf("%d:%s:%d:%s", id, w.nm.segTok(si.Account), si.Total, strings.Join(by, ""))
	}
	var tp []string
	for tag, tids := range v.tags {
		i := strings.IndexByte(tag, '/')
		symTag := tag
		if i >= 0 {
			symTag = tag[:i] + "/" + w.nm.sym(tag[i+1:])
		}
		s := make([]string, len(tids))
		sorted := append([]uint32{}, tids...)
		sort.Slice(sorted, func(a, b int) bool { return sorted[a] < sorted[b] })
		for k, id := range sorted {
			s[k] = fmt.Sprint(id)
		}
		tp = append(tp, symTag+"="+strings.Join(s, "+"))
	}
	sort.Strings(tp)
	return fmt.Sprintf("R[%s] S[%s] T[%s]", strings.Join(rp, " "), strings.Join(sp, " "), strings.Join(tp, " "))
}

// viewsAgree checks on the REAL bookkeeping that the three views describe one relation
// (stream, space, pattern) and that this relation is exactly the specification's registered set.
func (w *nodeWorld) viewsAgree(v views) {
	type key struct {
		sid   uint32
		space string
		pat   string
	}
	fromStreams := map[key]bool{}
	refs := map[string]map[string]int{}
	for id, si := range v.snap.Streams {
		n := 0
		for space, pats := range si.BySpace {
			for _, p := range pats {
				fromStreams[key{id, space, p}] = true
				if refs[space] == nil {
					refs[space] = map[string]int{}
				}
				refs[space][p]++
				n++
			}
		}
		if n != si.Total {
			w.violate("", fmt.Sprintf("stream %d: total=%d but %d patterns recorded", id, si.Total, n))
		}
		// the invariant proved in Lean (NodeSt.Agree) also says that no empty record is kept
		emptySig := ""
		if w.zeroAccept {
			emptySig = "F-pubsub-empty-sub"
		}
		if n == 0 {
			w.violate(emptySig, fmt.Sprintf("stream %d keeps a record without any pattern", id))
		}
		for space, pats := range si.BySpace {
			if len(pats) == 0 {
				w.violate(emptySig, fmt.Sprintf("stream %d keeps an empty pattern set for space %s", id, space))
			}
		}
	}
	for space, si := range v.snap.Remote {
		if si.Len == 0 {
			sig := ""
			if w.zeroAccept {
				sig = "F-pubsub-empty-sub"
			}
			w.violate(sig, fmt.Sprintf("space %s keeps an empty trie", space))
		}
	}
	fromTags := map[key]bool{}
	for tag, ids := range v.tags {
		i := strings.IndexByte(tag, '/')
		if i < 0 {
			w.violate("", "foreign tag in the pubsub pool: "+tag)
			continue
		}
		for _, id := range ids {
			if fromTags[key{id, tag[:i], tag[i+1:]}] {
				w.violate("", fmt.Sprintf("stream %d listed twice under tag %s", id, w.nm.sym(tag)))
			}
			fromTags[key{id, tag[:i], tag[i+1:]}] = true
			if _, ok := v.pool[id]; !ok {
				w.violate("", fmt.Sprintf("tag %s names stream %d which is not in the pool", w.nm.sym(tag), id))
			}
		}
	}
	for k := range fromStreams {
		if !fromTags[k] {
			w.violate("", fmt.Sprintf("views disagree: stream %d records (%s, %s) but carries no such tag", k.sid, k.space, w.nm.sym(k.pat)))
		}
	}
	for k := range fromTags {
		if !fromStreams[k] {
			w.violate("", fmt.Sprintf("views disagree: stream %d tagged (%s, %s) without a stream record", k.sid, k.space, w.nm.sym(k.pat)))
		}
	}
	for space, si := range v.snap.Remote {
		got := map[string]int{}
		pathOK, _ := treeFacts(si.Tree, nil, got)
		if !pathOK {
			w.violate("", fmt.Sprintf("trie of %s stores a pattern away from its path", space))
		}
		for p, c := range got {
			if refs[space][p] != c {
				w.violate("", fmt.Sprintf("views disagree: trie refcount of (%s, %s) is %d, %d streams record it", space, w.nm.sym(p), c, refs[space][p]))
			}
		}
		if si.Len != len(got) {
			w.violate("", fmt.Sprintf("trie of %s: Len=%d, distinct patterns=%d", space, si.Len, len(got)))
		}
	}
	for space, m := range refs {
		for p, c := range m {
			if _, ok := v.snap.Remote[space]; !ok {
				w.violate("", fmt.Sprintf("views disagree: %d streams record (%s, %s) but the space has no trie", c, space, w.nm.sym(p)))
			}
		}
	}
	// the relation itself is the specification's registered set
	want := map[key]bool{}
	for sid, ss := range w.spec.streams {
		for space, pats := range ss.reg {
			for p := range pats {
				want[key{sid, space, w.nm.real(p)}] = true
			}
		}
	}
	for k := range want {
		if !fromStreams[k] {
			w.violate("", fmt.Sprintf("registered interest (%d, %s, %s) is missing from the bookkeeping", k.sid, k.space, w.nm.sym(k.pat)))
		}
	}
	for k := range fromStreams {
		if !want[k] {
			w.violate("", fmt.Sprintf("bookkeeping holds (%d, %s, %s) which is not a registered interest", k.sid, k.space, w.nm.sym(k.pat)))
		}
	}
}

// ---- specification state (naive; from the property text) -----------------------------------------

type specStream struct {
	peer  string
	ident string
	reg   map[string]map[string]bool // space -> symbolic patterns
}

type nodeSpec struct {
	streams  map[uint32]*specStream // streams currently in the pool
	rateUsed map[string]int
}

func newNodeSpec() *nodeSpec {
	return &nodeSpec{streams: map[uint32]*specStream{}, rateUsed: map[string]int{}}
}

func (ss *specStream) total() int {
	n := 0
	for _, m := range ss.reg {
		n += len(m)
	}
	return n
}

func validSpace(s string) bool { return s != "" && !strings.Contains(s, "/") }

func isAcct(ident string) bool { return strings.HasPrefix(ident, "A") }

// ---- operations -------------------------------------------------------------------------------------

func (w *nodeWorld) finishOp(op string) observation {
	w.settle()
	o := w.collect()
	v := w.views()
	w.emit(op, o.String()+" | "+w.stateString(v))
	w.viewsAgree(v)
	return o
}

func (w *nodeWorld) open(peerId, ident string) *nstream {
	ctx := peer.CtxWithPeerId(context.Background(), peerId)
	if ident != "-" {
		ctx = peer.CtxWithIdentity(ctx, w.nm.identBytes(ident))
	}
	before := w.poolIds()
	s := &nstream{peer: peerId, ident: ident, fs: newFakeStream(ctx), done: make(chan error, 1), inPool: true, reader: true}
	go func() { s.done <- w.svc.HandleStream(s.fs) }()
	w.waitIdle(s, "open")
	for id, ps := range w.poolIds() {
		if _, old := before[id]; !old && ps.PeerId == peerId {
			s.sid = id
		}
	}
	if s.sid == 0 {
		w.r.Fatal("opened stream not found in the pool")
	}
	w.st[s.sid] = s
	w.spec.streams[s.sid] = &specStream{peer: peerId, ident: ident, reg: map[string]map[string]bool{}}
	w.finishOp(fmt.Sprintf("nopen %d %s %s", s.sid, peerId, ident))
	w.r.Count("node.open.ident_" + identKind(ident))
	return s
}

func identKind(ident string) string {
	switch ident {
	case "-":
		return "none"
	case "!":
		return "garbage"
	}
	return "account"
}

func (w *nodeWorld) setMember(space, acctTok string, v bool) {
	w.mem.set(space, w.nm.byTok(acctTok).id, v)
	w.emit(fmt.Sprintf("nmember %s %s %s", tok(space), acctTok, b01(v)), "ok")
}

func (w *nodeWorld) isMember(space, ident string) bool {
	return isAcct(ident) && w.mem.is(space, w.nm.byTok(ident).id)
}

func (w *nodeWorld) setResponsible(space string, v bool) {
	w.relay.mu.Lock()
	w.relay.notResp[space] = !v
	w.relay.mu.Unlock()
	w.emit(fmt.Sprintf("nresp %s %s", tok(space), b01(v)), "ok")
}

func (w *nodeWorld) setNodePeer(peerId string, v bool) {
	w.relay.mu.Lock()
	w.relay.nodePeers[peerId] = v
	w.relay.mu.Unlock()
	w.emit(fmt.Sprintf("nnodepeer %s %s", peerId, b01(v)), "ok")
}

// specSubscribe applies a subscribe frame to the specification state (and counts its branch).
func (w *nodeWorld) specSubscribe(s *nstream, space string, pats []string) {
	// specification
	ss := w.spec.streams[s.sid]
	okAll := true
	for _, p := range pats {
		if !naiveValidPattern(w.nm.real(p)) {
			okAll = false
		}
	}
	branch := "accepted"
	switch {
	case ss == nil:
		branch = "stream-gone"
	case !isAcct(s.ident):
		branch = "no-identity"
	case !validSpace(space):
		branch = "bad-space"
	case w.relay.notResp[space]:
		branch = "not-responsible"
	case !okAll:
		branch = "bad-pattern"
	case !w.isMember(space, s.ident):
		branch = "not-member"
	}
	if branch == "accepted" || branch == "stream-gone" {
		// a subscribe that passes every check: how many patterns get registered
		n := 0
		if ss != nil {
			for _, p := range pats {
				if ss.reg[space][p] {
					continue
				}
				if len(ss.reg[space]) >= capPerSpace || ss.total() >= capPerStream {
					branch = "cap-hit"
					break
				}
				if ss.reg[space] == nil {
					ss.reg[space] = map[string]bool{}
				}
				ss.reg[space][p] = true
				n++
			}
		}
		passes := isAcct(s.ident) && validSpace(space) && !w.relay.notResp[space] && okAll && w.isMember(space, s.ident)
		if passes && ((ss != nil && n == 0) || (ss == nil && len(pats) == 0)) {
			w.zeroAccept = true
			w.r.Count("node.sub.zero_accept")
		}
	}
	w.r.Count("node.sub." + branch)
}

func (w *nodeWorld) subscribe(s *nstream, space string, pats []string) {
	realPats := make([]string, len(pats))
	for i, p := range pats {
		realPats[i] = w.nm.real(p)
	}
	w.push(s, &pubsubproto.PubSubMessage{Content: &pubsubproto.PubSubMessage_Subscribe{
		Subscribe: &pubsubproto.Subscribe{SpaceId: space, Topics: realPats}}}, "subscribe")

	w.specSubscribe(s, space, pats)
	w.finishOp(fmt.Sprintf("nsub %d %s %s %s %s", s.sid, s.peer, s.ident, tok(space), toks(pats)))
}

func (w *nodeWorld) specUnsubscribe(s *nstream, space string, pats []string) {
	if ss := w.spec.streams[s.sid]; ss != nil {
		if len(pats) == 0 {
			delete(ss.reg, space)
			w.r.Count("node.unsub.all")
		} else {
			hit := false
			for _, p := range pats {
				if ss.reg[space][p] {
					hit = true
				}
				delete(ss.reg[space], p)
			}
			if len(ss.reg[space]) == 0 {
				delete(ss.reg, space)
			}
			w.r.Count("node.unsub.listed.hit_" + b01(hit))
		}
	}
}

func (w *nodeWorld) unsubscribe(s *nstream, space string, pats []string) {
	realPats := make([]string, len(pats))
	for i, p := range pats {
		realPats[i] = w.nm.real(p)
	}
	w.push(s, &pubsubproto.PubSubMessage{Content: &pubsubproto.PubSubMessage_Unsubscribe{
		Unsubscribe: &pubsubproto.Unsubscribe{SpaceId: space, Topics: realPats}}}, "unsubscribe")
	w.specUnsubscribe(s, space, pats)
	w.finishOp(fmt.Sprintf("nunsub %d %s %s", s.sid, tok(space), toks(pats)))
}

type pubOpts struct {
	space, topic string // topic symbolic
	ident        string // identity claimed in the message
	relayed      bool
	badIdLen     bool
	big          bool
	keyed        bool                 // the space has a read key: the frame carries a keyId (covered by the signature)
	frame        *pubsubproto.Publish // a frame built elsewhere (signed by a real client key / forwarded by another node)
}

func (w *nodeWorld) publish(s *nstream, o pubOpts) {
	w.msgSeq++
	msgId := make([]byte, real.VerifMsgIdLen)
	copy(msgId, fmt.Sprintf("m%014d", w.msgSeq))
	if o.badIdLen {
		msgId = msgId[:real.VerifMsgIdLen-1]
	}
	payload := []byte(fmt.Sprintf("payload-%d", w.msgSeq))
	if o.big {
		payload = bytes.Repeat([]byte{'x'}, maxPayload+1)
	}
	p := &pubsubproto.Publish{
		SpaceId:        o.space,
		Topic:          w.nm.real(o.topic),
		MsgId:          msgId,
		Payload:        payload,
		Identity:       w.nm.identBytes(o.ident),
		Signature:      []byte("sig-not-checked-by-relay"),
		TimestampMilli: time.Now().UnixMilli(),
		Relayed:        o.relayed,
	}
	if o.keyed {
		p.KeyId = fmt.Sprintf("readkey-%d", w.msgSeq%3)
	}
	if o.frame != nil {
		p = o.frame
		msgId, payload = p.MsgId, p.Payload
	}
	w.lastObs = observation{}
	w.push(s, &pubsubproto.PubSubMessage{Content: &pubsubproto.PubSubMessage_Publish{Publish: p}}, "publish")
	op := fmt.Sprintf("npub %s %s %s %s %s r%s l%s b%s", s.peer, s.ident, tok(o.space), tok(o.topic), o.ident, b01(o.relayed), b01(!o.badIdLen), b01(o.big))
	obs := w.finishOp(op)
	w.lastObs = obs

	// ---- the property, stated directly ----
	topicReal := w.nm.real(o.topic)
	accepted, forward := false, false
	reason := ""
	switch {
	case o.badIdLen || o.big:
		reason = "malformed"
	case !naiveValidTopic(topicReal):
		reason = "bad-topic"
	case w.relay.notResp[o.space]:
		reason = "not-responsible"
	case o.relayed:
		if w.relay.nodePeers[s.peer] {
			accepted, reason = true, "relayed-accepted"
		} else {
			reason = "relayed-from-non-node"
		}
	case !(s.ident != "-" && o.ident != "-" && s.ident == o.ident):
		reason = "identity-mismatch"
	case !w.isMember(o.space, s.ident):
		reason = "not-member"
	case naiveOwner(topicReal) != "" && naiveOwner(topicReal) != w.nm.byTok(s.ident).id:
		reason = "not-owner"
	case w.spec.rateUsed[s.peer] >= rateBurst:
		reason = "rate-limited"
	default:
		w.spec.rateUsed[s.peer]++
		accepted, forward, reason = true, true, "accepted"
	}
	w.r.Count("node.pub." + reason)
	want := map[uint32]bool{}
	if accepted {
		for sid, ss := range w.spec.streams {
			for pat := range ss.reg[o.space] {
				if naiveMatch(w.nm.real(pat), topicReal) {
					want[sid] = true
				}
			}
		}
	}
	got := map[uint32]int{}
	for _, d := range obs.deliveries {
		got[d.sid]++
		if diff := signedFieldsDiffer(d.p, p); diff != "" {
			w.violate("", fmt.Sprintf("stream %d received a different message than the one published (%s): its signature cannot verify", d.sid, diff))
		}
	}
	for sid, n := range got {
		if n > 1 {
			w.violate("", fmt.Sprintf("stream %d received %d copies of one publish (%s)", sid, n, reason))
		}
		if !want[sid] {
			w.violate("", fmt.Sprintf("publish (%s) reached stream %d which must not get it (topic %s)", reason, sid, o.topic))
		}
	}
	for sid := range want {
		if got[sid] == 0 {
			w.violate("", fmt.Sprintf("publish (%s) on topic %s did not reach subscribed stream %d", reason, o.topic, sid))
		}
	}
	wantFwd := 0
	if forward {
		wantFwd = 1
	}
	if len(obs.forwards) != wantFwd {
		w.violate("", fmt.Sprintf("publish (%s): forwarded %d times to the other responsible nodes, want %d", reason, len(obs.forwards), wantFwd))
	}
	for _, f := range obs.forwards {
		if !f.Relayed {
			w.violate("", "forwarded copy is not marked relayed (the next node would forward it again)")
		}
		if diff := signedFieldsDiffer(f, p); diff != "" {
			w.violate("", "forwarded copy differs from the published message ("+diff+"): subscribers behind the other responsible nodes cannot verify it")
		}
	}
	w.r.Count(fmt.Sprintf("node.pub.delivered_%d", min(len(want), 3)))
	if len(want) >= 2 {
		w.r.Count("node.pub.fanout_multi")
	}
}

// signedFieldsDiffer names the first field covered by the publisher's signature (sign.go: space,
// topic, msgId, keyId, timestamp, payload; plus identity and the signature itself) in which a relayed
// or fanned-out copy differs from the original frame.
func signedFieldsDiffer(got, want *pubsubproto.Publish) string {
	switch {
	case got.SpaceId != want.SpaceId:
		return "spaceId"
	case got.Topic != want.Topic:
		return "topic"
	case !bytes.Equal(got.MsgId, want.MsgId):
		return "msgId"
	case got.KeyId != want.KeyId:
		return "keyId"
	case got.TimestampMilli != want.TimestampMilli:
		return "timestamp"
	case !bytes.Equal(got.Payload, want.Payload):
		return "payload"
	case !bytes.Equal(got.Identity, want.Identity):
		return "identity"
	case !bytes.Equal(got.Signature, want.Signature):
		return "signature"
	}
	return ""
}

// closeStream ends the read side: readLoop returns, the pool removes the stream and runs the
// close hook, and HandleStream returns — all before this function returns.
func (w *nodeWorld) closeStream(s *nstream) {
	close(s.fs.in)
	select {
	case <-s.fs.idle: // readLoop may announce idle once more before reading EOF
		select {
		case <-s.done:
		case <-time.After(hangTimeout):
			w.r.Fatal("hang: HandleStream does not return after EOF")
		}
	case <-s.done:
	case <-time.After(hangTimeout):
		w.r.Fatal("hang: HandleStream does not return after EOF")
	}
	s.reader = false
	wasIn := s.inPool
	s.inPool = false
	delete(w.spec.streams, s.sid)
	delete(w.st, s.sid)
	w.finishOp(fmt.Sprintf("nclose %d", s.sid))
	w.r.Count("node.close.wasInPool_" + b01(wasIn))
}

// kill makes the write side fail: the pool removes the stream and runs the close hook while the
// reader is still alive, so a later frame is handled AFTER the stream is gone (close-before-subscribe).
func (w *nodeWorld) kill(s *nstream) {
	w.removeFromPool(s) // writeLoop: WaitOne(ctx) fails -> streamClose -> pool removal -> close hook
	w.waitHook(s.sid, "kill")
	s.inPool = false
	delete(w.spec.streams, s.sid)
	w.finishOp(fmt.Sprintf("nkill %d", s.sid))
	w.r.Count("node.kill")
}

func (w *nodeWorld) evict(space, acctTok string) {
	w.svc.EvictMember(space, w.nm.byTok(acctTok).pub)
	n := 0
	for _, ss := range w.spec.streams {
		if ss.ident == acctTok && len(ss.reg[space]) > 0 {
			delete(ss.reg, space)
			n++
		}
	}
	w.finishOp(fmt.Sprintf("nevict %s %s", tok(space), acctTok))
	w.r.Count(fmt.Sprintf("node.evict.streams_%d", min(n, 2)))
}

func (w *nodeWorld) revalidate(space string) {
	w.svc.RevalidateMembers(space, func(account string) bool { return w.mem.is(space, account) })
	n := 0
	for _, ss := range w.spec.streams {
		if len(ss.reg[space]) > 0 && !w.isMember(space, ss.ident) {
			delete(ss.reg, space)
			n++
		}
	}
	w.finishOp(fmt.Sprintf("nreval %s", tok(space)))
	w.r.Count(fmt.Sprintf("node.reval.streams_%d", min(n, 2)))
}

func (w *nodeWorld) closeSpace(space string) {
	w.svc.CloseSpace(space)
	for _, ss := range w.spec.streams {
		delete(ss.reg, space)
	}
	w.finishOp(fmt.Sprintf("nclosespace %s", tok(space)))
	w.r.Count("node.closespace")
}

// checkEmpty: after everything was withdrawn / closed / evicted, all bookkeeping must be gone.
func (w *nodeWorld) checkEmpty(when string) {
	v := w.views()
	var left []string
	onlyEmptyRecords := true
	for sp, si := range v.snap.Remote {
		left = append(left, fmt.Sprintf("remote[%s] (trie Len=%d)", sp, si.Len))
		if si.Len != 0 {
			onlyEmptyRecords = false
		}
	}
	for id, si := range v.snap.Streams {
		left = append(left, fmt.Sprintf("streams[%d] (total=%d, %d space entries)", id, si.Total, len(si.BySpace)))
		if si.Total != 0 {
			onlyEmptyRecords = false
		}
	}
	for tag := range v.tags {
		left = append(left, "tag "+w.nm.sym(tag))
		onlyEmptyRecords = false
	}
	if len(left) == 0 {
		return
	}
	sort.Strings(left)
	sig := ""
	if onlyEmptyRecords && w.zeroAccept {
		sig = "F-pubsub-empty-sub"
	}
	w.violate(sig, fmt.Sprintf("%s: interest bookkeeping left behind: %s", when, strings.Join(left, "; ")))
}

func (w *nodeWorld) shutdown() {
	for _, id := range w.sids() {
		s := w.st[id]
		if s.reader {
			close(s.fs.in)
			select {
			case <-s.fs.idle:
				<-s.done
			case <-s.done:
			case <-time.After(hangTimeout):
			}
		}
	}
	// release the forward stream's reader, then stop the service
	close(w.fwd.in)
	ctx, cancel := context.WithTimeout(context.Background(), hangTimeout)
	defer cancel()
	_ = w.app.Close(ctx)
}

var _ = io.EOF
