package pubsub

import (
	"context"
	"errors"
	"fmt"
	"sort"
	"strings"
	"sync"
	"time"

	"github.com/anyproto/any-sync/app"
	real "github.com/anyproto/any-sync/commonspace/pubsub"
	"github.com/anyproto/any-sync/commonspace/pubsub/pubsubproto"
	"github.com/anyproto/any-sync/net/streampool/streamhandler"
	"github.com/anyproto/any-sync/testutil/accounttest"
	"github.com/anyproto/any-sync/util/crypto"

	"verifharness/internal/corr"
)

// ---------------------------------------------------------------------------------------------
// the client world: one real pubsub service in the client role (no Relay); frames are handed to
// its stream handler exactly as the pool's read loop would, handlers record their invocations
// ---------------------------------------------------------------------------------------------

const (
	dedupSize      = 6
	clientCapSpace = 3
	barrierSpace   = "zbar"
	barrierTopic   = "zz"
)

type invocation struct {
	h       int
	space   string
	topic   string
	account string
	payload string
}

type clientSub struct {
	h       int
	space   string
	pattern string // symbolic
	unsub   func()
	live    bool
}

type clientWorld struct {
	r    *corr.Run
	nm   *names
	self *acct
	svc  real.Service
	sh   streamhandler.StreamHandler
	app  *app.App
	mem  *fakeMembership
	ops  []string

	mu      sync.Mutex
	invoked []invocation
	barrier chan struct{}

	noModel bool
	subs    []*clientSub
	ring    []string // specification: the last dedupSize recorded message ids (oldest first)
	seq  int
}

func newClientWorld(r *corr.Run, accts []*acct) *clientWorld {
	return newClientWorldOpt(r, accts, accts[0], nil, false)
}

// newClientWorldOpt: `cr` non-nil makes the spaces keyed (payloads encrypted, keyId stamped); noModel
// keeps the Lean model out (its client has no Crypto component).
func newClientWorldOpt(r *corr.Run, accts []*acct, self *acct, cr real.Crypto, noModel bool) *clientWorld {
	w := &clientWorld{r: r, nm: newNames(accts), self: self, mem: &fakeMembership{}, barrier: make(chan struct{}, 1), noModel: noModel}
	w.svc = real.New(real.Deps{
		Membership: w.mem,
		Crypto:     cr,
		Config:     real.Config{DedupSize: dedupSize, MaxPatternsPerSpace: clientCapSpace, MaxPayloadSize: maxPayload},
	})
	w.sh = w.svc.(streamhandler.StreamHandler)
	w.app = new(app.App)
	w.app.Register(accounttest.NewWithAcc(w.self.keys)).Register(w.svc)
	if err := w.app.Start(context.Background()); err != nil {
		r.Fatal("client app start: " + err.Error())
	}
	if _, err := w.svc.Subscribe(barrierSpace, barrierTopic, func(string, string, crypto.PubKey, []byte) {
		w.barrier <- struct{}{}
	}); err != nil {
		r.Fatal("barrier subscribe: " + err.Error())
	}
	w.emit(fmt.Sprintf("cnew %d %d %s", dedupSize, clientCapSpace, w.self.tok), "ok")
	return w
}

func (w *clientWorld) emit(op, impl string) {
	w.ops = append(w.ops, op)
	if useModel && !w.noModel {
		w.r.Check("C17", "pubsub.client", append([]string{}, w.ops...), w.r.Ask(op), impl)
	}
}

func (w *clientWorld) violate(desc string) {
	w.r.Violate("C17", "", "pubsub.client.oracle", desc, append([]string{}, w.ops...))
}

// flush pushes one own publish through the dispatch queue: when its handler has run, every earlier
// item has been dispatched. The own publish records one fresh id in the dedup ring (mirrored in the
// specification ring and in the model by the `cflush` op).
func (w *clientWorld) flush() []invocation {
	if err := w.svc.Publish(context.Background(), barrierSpace, barrierTopic, nil); err != nil {
		w.r.Fatal("barrier publish: " + err.Error())
	}
	select {
	case <-w.barrier:
	case <-time.After(hangTimeout):
		w.r.Fatal(fmt.Sprintf("hang: dispatch loop does not drain; ops=%v", w.ops))
	}
	w.record(fmt.Sprintf("own-%d", len(w.ops)))
	w.mu.Lock()
	defer w.mu.Unlock()
	out := w.invoked
	w.invoked = nil
	return out
}

func (w *clientWorld) record(id string) {
	w.ring = append(w.ring, id)
	if len(w.ring) > dedupSize {
		w.ring = w.ring[1:]
	}
}

func (w *clientWorld) inRing(id string) bool {
	for _, x := range w.ring {
		if x == id {
			return true
		}
	}
	return false
}

func showInvocations(l []invocation) string {
	if len(l) == 0 {
		return "-"
	}
	p := make([]string, len(l))
	for i, v := range l {
		p[i] = fmt.Sprintf("h%d:%s", v.h, v.account)
	}
	return strings.Join(p, " ")
}

func (w *clientWorld) localState() string {
	ls := real.VerifLocalSnapshot(w.svc)
	var parts []string
	for space, m := range ls.Subs {
		if space == barrierSpace {
			continue
		}
		var ps []string
		for p, n := range m {
			ps = append(ps, fmt.Sprintf("%s*%d", w.nm.sym(p), n))
		}
		sort.Strings(ps)
		parts = append(parts, fmt.Sprintf("%s:%d:%d{%s}", tok(space), ls.TrieLen[space], ls.Topics[space], strings.Join(ps, ",")))
	}
	for space := range ls.TrieLen {
		if _, ok := ls.Subs[space]; !ok {
			parts = append(parts, tok(space)+":trie-only")
		}
	}
	for space := range ls.Topics {
		if _, ok := ls.Subs[space]; !ok {
			parts = append(parts, tok(space)+":count-only")
		}
	}
	sort.Strings(parts)
	return "L[" + strings.Join(parts, " ") + "]"
}

func (w *clientWorld) setMember(space, acctTok string, v bool) {
	w.mem.set(space, w.nm.byTok(acctTok).id, v)
	w.emit(fmt.Sprintf("cmember %s %s %s", tok(space), acctTok, b01(v)), "ok")
}

func errKind(err error) string {
	switch {
	case err == nil:
		return "ok"
	case errors.Is(err, pubsubproto.ErrInvalidTopic):
		return "InvalidTopic"
	case errors.Is(err, pubsubproto.ErrTooManyTopics):
		return "TooManyTopics"
	case errors.Is(err, pubsubproto.ErrTopicNotOwned):
		return "TopicNotOwned"
	case errors.Is(err, pubsubproto.ErrInvalidMessage):
		return "InvalidMessage"
	}
	return "other"
}

func (w *clientWorld) subscribe(space, pattern string) {
	h := len(w.subs)
	cs := &clientSub{h: h, space: space, pattern: pattern}
	unsub, err := w.svc.Subscribe(space, w.nm.real(pattern), func(sp, topic string, identity crypto.PubKey, payload []byte) {
		w.mu.Lock()
		w.invoked = append(w.invoked, invocation{h: h, space: sp, topic: w.nm.sym(topic), account: w.nm.segTok(identity.Account()), payload: string(payload)})
		w.mu.Unlock()
	})
	res := errKind(err)
	if err == nil {
		cs.unsub, cs.live = unsub, true
	}
	w.subs = append(w.subs, cs)
	w.emit(fmt.Sprintf("csub %d %s %s", h, tok(space), tok(pattern)), res+" "+w.localState())
	// grammar oracle on the public API
	if (err == nil) != naiveValidPattern(w.nm.real(pattern)) && res != "TooManyTopics" {
		w.violate(fmt.Sprintf("Subscribe(%q) -> %s, grammar says valid=%v", pattern, res, naiveValidPattern(w.nm.real(pattern))))
	}
	w.r.Count("client.sub." + res)
}

func (w *clientWorld) unsubscribe(cs *clientSub) {
	cs.unsub()
	cs.live = false
	w.emit(fmt.Sprintf("cunsub %d", cs.h), w.localState())
	w.r.Count("client.unsub")
}

func (w *clientWorld) closeSpace(space string) {
	w.svc.CloseSpace(space)
	for _, cs := range w.subs {
		if cs.space == space {
			cs.live = false
		}
	}
	w.emit(fmt.Sprintf("cclosespace %s", tok(space)), w.localState())
	w.r.Count("client.closespace")
}

// expected handlers for an accepted message: every live subscription of the space whose pattern
// matches, once each
func (w *clientWorld) matching(space, topicReal string) []int {
	var hs []int
	for _, cs := range w.subs {
		if cs.live && cs.space == space && naiveMatch(w.nm.real(cs.pattern), topicReal) {
			hs = append(hs, cs.h)
		}
	}
	sort.Ints(hs)
	return hs
}

func sortedHandlers(l []invocation) []int {
	hs := make([]int, len(l))
	for i, v := range l {
		hs[i] = v.h
	}
	sort.Ints(hs)
	return hs
}

type recvOpts struct {
	space, topic string // topic symbolic
	signer       string // account token whose key signs
	tamper       string // none | sig | topic | payload | ts | id | ident | space | badident | nosig | relayed
	ts           string // fresh | past | future | zero
	id           int    // message id number (reuse = replay)
	keyId        bool
}

// publisher-chosen message ids are only length-checked: id numbers below cornerIds are corner byte
// patterns (0 = all zero = the value of a never-written ring slot, 1 = all 0xff, 2 = a single trailing 1)
const cornerIds = 3

func (w *clientWorld) msgId(n int) []byte {
	b := make([]byte, real.VerifMsgIdLen)
	switch n {
	case 0:
	case 1:
		for i := range b {
			b[i] = 0xff
		}
	case 2:
		b[len(b)-1] = 1
	default:
		copy(b, fmt.Sprintf("id%013d", n))
	}
	return b
}

func (w *clientWorld) receive(o recvOpts) {
	now := time.Now()
	var ts int64
	switch o.ts {
	case "fresh":
		ts = now.UnixMilli()
	case "past":
		ts = now.Add(-time.Hour).UnixMilli()
	case "future":
		ts = now.Add(time.Hour).UnixMilli()
	case "zero":
		ts = 0
	}
	payload := fmt.Sprintf("p%d", o.id)
	signedTopic := w.nm.real(o.topic)
	p := &pubsubproto.Publish{
		SpaceId: o.space, Topic: signedTopic, MsgId: w.msgId(o.id), Payload: []byte(payload), TimestampMilli: ts,
	}
	if o.keyId {
		p.KeyId = "k1"
	}
	signer := w.nm.byTok(o.signer)
	if err := real.VerifSignPublish(signer.keys.SignKey, p); err != nil {
		w.r.Fatal("sign: " + err.Error())
	}
	claimed := o.signer
	effTs, effId := o.ts, o.id
	switch o.tamper {
	case "sig":
		p.Signature = append([]byte{}, p.Signature...)
		p.Signature[3] ^= 0x40
	case "nosig":
		p.Signature = nil
	case "topic":
		// a relay rewrites the topic into another one the receiver also listens to
		p.Topic = signedTopic + "/b"
		if strings.HasSuffix(signedTopic, "/b") {
			p.Topic = strings.TrimSuffix(signedTopic, "/b")
		}
	case "payload":
		p.Payload = []byte(payload + "x")
		payload += "x"
	case "ts":
		if ts != 0 {
			p.TimestampMilli = ts + 1
		} else {
			p.TimestampMilli = now.UnixMilli()
			effTs = "fresh"
		}
	case "id":
		p.MsgId = w.msgId(o.id + 100000)
		effId = o.id + 100000
	case "space":
		if o.space == "s1" {
			p.SpaceId = "s2"
		} else {
			p.SpaceId = "s1"
		}
	case "ident":
		// claim to be another (member) account while the signature is the signer's
		other := w.nm.accts[(w.accIndex(o.signer)+1)%3]
		p.Identity = other.ident
		claimed = other.tok
	case "badident":
		p.Identity = garbageIdentity
		claimed = "!"
	case "relayed":
		p.Relayed = true // excluded from the signature: not a forgery
	}
	forged := o.tamper != "none" && o.tamper != "relayed"
	topicReal, space := p.Topic, p.SpaceId

	err := w.sh.HandleMessage(context.Background(), "peerX", &pubsubproto.PubSubMessage{Content: &pubsubproto.PubSubMessage_Publish{Publish: p}})
	if err != nil {
		w.violate("HandleMessage returned an error for a publish frame: " + err.Error())
	}
	// what the specification says before flushing (flush records its own id afterwards)
	idKey := string(p.MsgId)
	wantHandlers := w.matching(space, topicReal)
	reason := "deliver"
	switch {
	case !naiveValidTopic(topicReal):
		reason = "bad-topic"
	case len(wantHandlers) == 0:
		reason = "no-interest"
	case claimed == "!":
		reason = "bad-identity"
	case !w.mem.is(space, w.nm.byTok(claimed).id):
		reason = "non-member"
	case naiveOwner(topicReal) != "" && naiveOwner(topicReal) != w.nm.byTok(claimed).id:
		reason = "not-owner"
	case effTs == "past" || effTs == "future":
		reason = "stale"
	case forged:
		reason = "forged"
	case w.inRing(idKey):
		reason = "replayed"
	case o.keyId:
		reason = "undecryptable"
		w.record(idKey)
	default:
		w.record(idKey)
	}
	got := w.flush()
	// the model gets the frame as received: claimed identity, whether the signature verifies under it
	// (symbolic crypto: exactly the untampered frames do), timestamp class, id
	op := fmt.Sprintf("crecv %s %s %s v%s %s %d k%s", tok(space), tok(w.nm.sym(topicReal)), claimed, b01(!forged), effTs, effId, b01(o.keyId))
	w.r.Count("client.recv.tamper_" + o.tamper)
	w.emit(op, showInvocations(got))
	w.emit("cflush", "ok")
	w.r.Count("client.recv." + reason)

	// ---- the property, stated directly ----
	if reason != "deliver" {
		if len(got) != 0 {
			w.violate(fmt.Sprintf("a %s message reached handlers %v", reason, sortedHandlers(got)))
		}
		return
	}
	if fmt.Sprint(sortedHandlers(got)) != fmt.Sprint(wantHandlers) {
		w.violate(fmt.Sprintf("authentic message on %s: handlers invoked %v, subscribed and matching %v", o.topic, sortedHandlers(got), wantHandlers))
	}
	for _, v := range got {
		if v.account != claimed || v.payload != payload || v.topic != w.nm.sym(topicReal) || v.space != space {
			w.violate(fmt.Sprintf("handler h%d saw (%s,%s,%s,%s), message was (%s,%s,%s,%s)", v.h, v.space, v.topic, v.account, v.payload, space, w.nm.sym(topicReal), claimed, payload))
		}
	}
}

func (w *clientWorld) accIndex(tokName string) int {
	for i, a := range w.nm.accts {
		if a.tok == tokName {
			return i
		}
	}
	return 0
}

// ownPublish: the public Publish API (validates, checks the owner namespace against the own account,
// records the own id for echo suppression, delivers to local handlers)
func (w *clientWorld) ownPublish(space, topic string, big bool) {
	payload := fmt.Sprintf("own%d", len(w.ops))
	if big {
		payload = strings.Repeat("y", maxPayload+1)
	}
	topicReal := w.nm.real(topic)
	err := w.svc.Publish(context.Background(), space, topicReal, []byte(payload))
	res := errKind(err)
	if err == nil {
		w.record(fmt.Sprintf("ownpub-%d", len(w.ops)))
	}
	wantHandlers := w.matching(space, topicReal)
	got := w.flush()
	w.emit(fmt.Sprintf("cpub %s %s b%s", tok(space), tok(topic), b01(big)), res+" "+showInvocations(got))
	w.emit("cflush", "ok")
	w.r.Count("client.pub." + res)
	wantOK := naiveValidTopic(topicReal) && !big && (naiveOwner(topicReal) == "" || naiveOwner(topicReal) == w.self.id)
	if (err == nil) != wantOK {
		w.violate(fmt.Sprintf("Publish(%q) -> %s, property says accepted=%v", topic, res, wantOK))
	}
	if err != nil {
		wantHandlers = nil
	}
	if fmt.Sprint(sortedHandlers(got)) != fmt.Sprint(wantHandlers) {
		w.violate(fmt.Sprintf("own publish on %s (%s): handlers invoked %v, want %v", topic, res, sortedHandlers(got), wantHandlers))
	}
}

func (w *clientWorld) checkLocalEmpty() {
	ls := real.VerifLocalSnapshot(w.svc)
	var left []string
	for space := range ls.Subs {
		if space != barrierSpace {
			left = append(left, "localSubs["+space+"]")
		}
	}
	for space := range ls.TrieLen {
		if space != barrierSpace {
			left = append(left, "localTrie["+space+"]")
		}
	}
	for space := range ls.Topics {
		if space != barrierSpace {
			left = append(left, "localTopic["+space+"]")
		}
	}
	if len(left) > 0 {
		sort.Strings(left)
		w.violate("all local subscriptions withdrawn but local interest bookkeeping remains: " + strings.Join(left, ", "))
	}
}

func (w *clientWorld) shutdown() {
	ctx, cancel := context.WithTimeout(context.Background(), hangTimeout)
	defer cancel()
	_ = w.app.Close(ctx)
}
