// Package pubsub drives the real commonspace/pubsub code (pattern trie, topic grammar, the serving
// side and the client receive path of the service) against the Lean model and a direct oracle (C17).
package pubsub

import (
	"fmt"

	"verifharness/internal/corr"
)

// useModel switches the correspondence half (model vs implementation) on.
const useModel = true

func init() {
	corr.RegisterArea("pubsub", Run)
	corr.RegisterExtractor("pubsub", extract)
}

var (
	symPatterns = []string{"a", "b", "a/b", "a/*", "a/>", "*", ">", "*/b", "a/b/>", "*/*", "a/b/a", "acc/*", "acc/>", "acc/a/*", "acc/a/A0", "acc/*/A1", "acc/A2", "A0"}
	badPatterns = []string{"", "a//b", ">/a", "a*", "/a", "a/", "a/>/b", "*>"}
	symTopics   = []string{"a", "b", "a/b", "a/a", "b/b", "a/b/a", "a/b/b", "acc/A0", "acc/A1", "acc/A2", "acc/a/A0", "acc/a/A1", "acc/a", "acc", "A0", "b/a/b"}
	badTopics   = []string{"", "a/*", "a//b", ">", "a/", "/a", "acc/*"}
	spaces      = []string{"s1", "s2"}
	badSpaces   = []string{"", "s/1"}
	peers       = []string{"P0", "P1", "P2", "N1"}
	accTokens   = []string{"A0", "A1", "A2"}
)

func pick(r *corr.Run, l []string) string { return l[r.Intn(len(l))] }

func (w *nodeWorld) liveStreams(readerOnly bool) []*nstream {
	var out []*nstream
	for _, id := range w.sids() {
		s := w.st[id]
		if s.reader && (s.inPool || readerOnly) {
			out = append(out, s)
		}
	}
	return out
}

func (w *nodeWorld) pickSpace() string {
	if w.r.Chance(6) {
		return pick(w.r, badSpaces)
	}
	if w.r.Chance(65) {
		return "s1"
	}
	return "s2"
}

func (w *nodeWorld) pickPatterns(s *nstream, space string) []string {
	r := w.r
	n := 1 + r.Intn(3)
	switch {
	case r.Chance(7):
		n = 0 // a subscribe frame without topics
	case r.Chance(8):
		n = 4 + r.Intn(2) // beyond the per-space cap in one frame
	}
	out := make([]string, 0, n)
	for i := 0; i < n; i++ {
		switch {
		case r.Chance(5):
			out = append(out, pick(r, badPatterns))
		case r.Chance(15) && len(out) > 0:
			out = append(out, out[r.Intn(len(out))]) // duplicate inside one frame
		default:
			out = append(out, pick(r, symPatterns))
		}
	}
	// sometimes re-subscribe what is already registered (duplicates are skipped, nothing accepted)
	if ss := w.spec.streams[s.sid]; ss != nil && len(ss.reg[space]) > 0 && r.Chance(12) {
		out = out[:0]
		for p := range ss.reg[space] {
			out = append(out, p)
		}
		sortStrings(out)
	}
	return out
}

func sortStrings(l []string) {
	for i := 1; i < len(l); i++ {
		for j := i; j > 0 && l[j] < l[j-1]; j-- {
			l[j], l[j-1] = l[j-1], l[j]
		}
	}
}

// a space in which the stream has registered patterns (so that the loop reaches it), else any
func (w *nodeWorld) spaceWithInterest(s *nstream) string {
	var cands []string
	for _, sp := range spaces {
		if len(w.registeredOf(s, sp)) > 0 {
			cands = append(cands, sp)
		}
	}
	if len(cands) > 0 && w.r.Chance(85) {
		return cands[w.r.Intn(len(cands))]
	}
	return pick(w.r, spaces)
}

func (w *nodeWorld) registeredOf(s *nstream, space string) []string {
	var out []string
	if ss := w.spec.streams[s.sid]; ss != nil {
		for p := range ss.reg[space] {
			out = append(out, p)
		}
	}
	sortStrings(out)
	return out
}

// a topic that some registered pattern matches (so that fan-out really happens), or a random one
func (w *nodeWorld) pickTopic(space string) string {
	r := w.r
	if r.Chance(7) {
		return pick(r, badTopics)
	}
	if r.Chance(70) {
		var cands []string
		for _, t := range symTopics {
			for _, ss := range w.spec.streams {
				for p := range ss.reg[space] {
					if naiveMatch(w.nm.real(p), w.nm.real(t)) {
						cands = append(cands, t)
					}
				}
			}
		}
		if len(cands) > 0 {
			sortStrings(cands)
			return cands[r.Intn(len(cands))]
		}
	}
	return pick(r, symTopics)
}

// witnessCases replays the two minimal histories behind F-pubsub-empty-sub on every run.
func witnessCases(r *corr.Run, accts []*acct) {
	// W1: a subscribe that registers nothing leaves an empty trie for its space; once the stream's
	// record is pruned through another space nobody ever removes it, not even the stream close
	w := newNodeWorld(r, accts)
	w.setMember("s1", "A0", true)
	w.setMember("s2", "A0", true)
	s := w.open("P0", "A0")
	w.subscribe(s, "s1", []string{"a"})
	w.subscribe(s, "s2", nil)
	w.unsubscribe(s, "s1", []string{"a"})
	w.checkEmpty("W1: after the only subscription was withdrawn")
	w.closeStream(s)
	w.checkEmpty("W1: after the stream closed")
	r.Case("W1 "+fmt.Sprint(w.ops), true)
	w.shutdown()
	// W2: the stream is already gone when an empty subscribe frame is handled: the per-stream record
	// created for it can never be cleaned (the close hook has already run)
	w = newNodeWorld(r, accts)
	w.setMember("s1", "A1", true)
	s = w.open("P1", "A1")
	w.kill(s)
	w.subscribe(s, "s1", nil)
	w.closeStream(s)
	w.checkEmpty("W2: after the stream closed")
	r.Case("W2 "+fmt.Sprint(w.ops), true)
	w.shutdown()
	// W3: cap reached in one space, subscribe in a second space registers nothing
	w = newNodeWorld(r, accts)
	w.setMember("s1", "A2", true)
	w.setMember("s2", "A2", true)
	s = w.open("P2", "A2")
	w.subscribe(s, "s1", []string{"a", "b", "a/b"})
	w.subscribe(s, "s2", []string{"a"})
	w.subscribe(s, "s2", []string{"b"}) // stream cap (4) reached: nothing accepted
	w.unsubscribe(s, "s2", []string{"a"})
	w.subscribe(s, "s2", nil)
	w.closeSpace("s1")
	w.evict("s2", "A2")
	w.checkEmpty("W3: after close-space and evict")
	w.closeStream(s)
	w.checkEmpty("W3: after the stream closed")
	r.Case("W3 "+fmt.Sprint(w.ops), true)
	w.shutdown()
}

// raceWitnessCases: the close-inside-subscribe schedule with another stream holding the same pattern,
// and the symmetric points of unsubscribe / evict / close-space, on every run.
func raceWitnessCases(r *corr.Run, accts []*acct) {
	setup := func() (*nodeWorld, *nstream, *nstream) {
		w := newNodeWorld(r, accts)
		for _, sp := range spaces {
			for _, a := range accTokens {
				w.setMember(sp, a, true)
			}
		}
		s1 := w.open("P0", "A0")
		s2 := w.open("P1", "A1")
		w.subscribe(s1, "s1", []string{"a", "a/>"})
		return w, s1, s2
	}
	probe := func(w *nodeWorld, from *nstream) {
		// the delivery oracle for the streams that still hold the patterns
		w.publish(from, pubOpts{space: "s1", topic: "a", ident: from.ident, keyed: true})
		w.publish(from, pubOpts{space: "s1", topic: "a/b", ident: from.ident})
	}
	finish := func(w *nodeWorld, name string) {
		for _, id := range w.sids() {
			w.closeStream(w.st[id])
		}
		w.checkEmpty(name + ": after every stream closed")
		r.Case(name+" "+fmt.Sprint(w.ops), true)
		w.shutdown()
	}
	// RW1: stream 2 subscribes the patterns stream 1 holds and is removed inside AddTagsCtx
	w, s1, s2 := setup()
	w.subscribeRace(s2, "s1", []string{"a", "a/>", "b"})
	probe(w, s1)
	finish(w, "RW1")
	// RW2: same, stream 2 already had interest of its own
	w, s1, s2 = setup()
	w.subscribe(s2, "s1", []string{"a"})
	w.subscribe(s2, "s2", []string{"b"})
	w.subscribeRace(s2, "s1", []string{"a/>", "*"})
	probe(w, s1)
	finish(w, "RW2")
	// RW3: close between the record update and RemoveTagsCtx of an unsubscribe
	w, s1, s2 = setup()
	w.subscribe(s2, "s1", []string{"a", "b"})
	w.unsubscribeRace(s2, "s1", []string{"a"})
	probe(w, s1)
	finish(w, "RW3")
	// RW4: a victim of EvictMember closes when the loop reaches its tags
	w, s1, s2 = setup()
	w.subscribe(s2, "s1", []string{"a", "b"})
	w.subscribe(s2, "s2", []string{"a"})
	w.evictRace("s1", "A1", s2)
	probe(w, s1)
	finish(w, "RW4")
	// RW5: CloseSpace with a closing victim; the other space of that stream must go with its close
	w, s1, s2 = setup()
	w.subscribe(s2, "s1", []string{"a"})
	w.subscribe(s2, "s2", []string{"a", "b"})
	w.subscribe(s1, "s2", []string{"a"})
	w.closeSpaceRace("s1", s2)
	w.publish(s1, pubOpts{space: "s2", topic: "a", ident: s1.ident})
	finish(w, "RW5")
}

func nodeCase(r *corr.Run, accts []*acct, steps int) {
	w := newNodeWorld(r, accts)
	defer w.shutdown()
	// initial membership: most accounts are members of most spaces
	for _, sp := range spaces {
		for _, a := range accTokens {
			if r.Chance(80) {
				w.setMember(sp, a, true)
			}
		}
	}
	w.setNodePeer("N1", true)
	nOpen := 0
	for i := 0; i < steps; i++ {
		live := w.liveStreams(false)
		any := w.liveStreams(true)
		x := r.Intn(100)
		switch {
		case len(live) == 0 || (x < 10 && len(w.st) < 3):
			peerId := pick(r, peers)
			if r.Chance(20) && len(live) > 0 {
				peerId = live[r.Intn(len(live))].peer // second stream of the same peer
			}
			ident := pick(r, accTokens)
			if r.Chance(6) {
				ident = "-"
			} else if r.Chance(5) {
				ident = "!"
			}
			w.open(peerId, ident)
			nOpen++
		case x < 38:
			s := any[r.Intn(len(any))]
			space := w.pickSpace()
			w.subscribe(s, space, w.pickPatterns(s, space))
		case x < 50:
			s := any[r.Intn(len(any))]
			space := w.pickSpace()
			reg := w.registeredOf(s, space)
			var pats []string
			switch {
			case r.Chance(30):
				// empty list = everything of the space
			case len(reg) > 0 && r.Chance(75):
				pats = []string{reg[r.Intn(len(reg))]}
				if r.Chance(30) {
					pats = append(pats, pick(r, symPatterns))
				}
			default:
				pats = []string{pick(r, symPatterns)}
			}
			w.unsubscribe(s, space, pats)
		case x < 80:
			// publishes only on streams that are still connected: a killed stream's context is
			// cancelled, and what the dial pool does with a cancelled context is not the property
			s := live[r.Intn(len(live))]
			space := w.pickSpace()
			o := pubOpts{space: space, topic: w.pickTopic(space), ident: s.ident}
			switch y := r.Intn(100); {
			case y < 8:
				o.ident = pick(r, accTokens) // may differ from the proven identity
			case y < 11:
				o.ident = "-"
			case y < 13:
				o.ident = "!"
			}
			if r.Chance(15) || (s.peer == "N1" && r.Chance(50)) {
				o.relayed = true
			}
			o.badIdLen = r.Chance(3)
			o.big = r.Chance(3)
			o.keyed = r.Chance(50) // spaces with a read key stamp a keyId the signature covers
			w.publish(s, o)
		case x < 84:
			w.setMember(pick(r, spaces), pick(r, accTokens), r.Chance(50))
		case x < 86:
			w.evict(w.pickSpace(), pick(r, accTokens))
		case x < 88:
			w.revalidate(pick(r, spaces))
		case x < 90:
			w.closeSpace(w.pickSpace())
		case x < 91:
			w.setResponsible(pick(r, spaces), r.Chance(50))
		case x < 92:
			w.setNodePeer(pick(r, peers), r.Chance(50))
		case x < 95:
			w.closeStream(any[r.Intn(len(any))])
		default:
			if len(live) > 0 {
				s := live[r.Intn(len(live))]
				switch y := r.Intn(100); {
				case y < 35:
					w.kill(s)
				case y < 65:
					// the stream closes inside its own subscribe; prefer patterns other streams hold
					space := "s1"
					if r.Chance(30) {
						space = "s2"
					}
					if isAcct(s.ident) && r.Chance(75) {
						w.setMember(space, s.ident, true) // so that the frame usually gets as far as tagging
					}
					pats := w.pickPatterns(s, space)
					var shared []string
					for _, id := range w.sids() {
						if id != s.sid {
							shared = append(shared, w.registeredOf(w.st[id], space)...)
						}
					}
					if len(shared) > 0 && r.Chance(80) {
						pats = append([]string{shared[r.Intn(len(shared))]}, pats...)
						if len(pats) > 3 {
							pats = pats[:3]
						}
					}
					w.subscribeRace(s, space, pats)
				case y < 80:
					space := w.pickSpace()
					reg := w.registeredOf(s, space)
					var pats []string
					if len(reg) > 0 && r.Chance(70) {
						pats = []string{reg[r.Intn(len(reg))]}
					}
					w.unsubscribeRace(s, space, pats)
				case y < 92 && isAcct(s.ident):
					w.evictRace(w.spaceWithInterest(s), s.ident, s)
				default:
					w.closeSpaceRace(w.spaceWithInterest(s), s)
				}
			}
		}
	}
	// teardown: withdraw everything, stream by stream, in a random order and by a random mechanism
	ids := w.sids()
	for _, i := range r.Perm(len(ids)) {
		s := w.st[ids[i]]
		switch y := r.Intn(100); {
		case y < 35:
			w.closeStream(s)
			r.Count("node.teardown.close")
		case y < 50 && s.inPool:
			w.kill(s)
			if r.Chance(50) {
				// the close-before-subscribe order: the frame is handled after the stream is gone
				w.subscribe(s, "s1", w.pickPatterns(s, "s1"))
				r.Count("node.teardown.kill_then_subscribe")
			}
			r.Count("node.teardown.kill")
		default:
			for _, sp := range append(append([]string{}, spaces...), badSpaces...) {
				switch z := r.Intn(100); {
				case z < 40 && s.reader:
					w.unsubscribe(s, sp, nil)
					r.Count("node.teardown.unsub_all")
				case z < 60 && isAcct(s.ident):
					w.evict(sp, s.ident)
					r.Count("node.teardown.evict")
				case z < 75 && isAcct(s.ident):
					w.setMember(sp, s.ident, false)
					w.revalidate(sp)
					r.Count("node.teardown.revalidate")
				case z < 90 || !s.reader:
					w.closeSpace(sp)
					r.Count("node.teardown.closespace")
				default:
					for _, p := range w.registeredOf(s, sp) {
						w.unsubscribe(s, sp, []string{p})
					}
					r.Count("node.teardown.unsub_each")
				}
			}
		}
	}
	w.checkEmpty("after all interest was withdrawn (some streams still open)")
	for _, id := range w.sids() {
		w.closeStream(w.st[id])
	}
	w.checkEmpty("after every stream closed")
	r.Case(fmt.Sprint(w.ops), nOpen >= 2 && steps >= 10)
	if steps >= 20 {
		r.Sample(map[string]any{"stream": "pubsub.node", "ops": w.ops[:min(len(w.ops), 25)]})
	}
}

func clientCase(r *corr.Run, accts []*acct, steps int) {
	w := newClientWorld(r, accts)
	defer w.shutdown()
	for _, sp := range spaces {
		for _, a := range accTokens {
			if r.Chance(80) {
				w.setMember(sp, a, true)
			}
		}
	}
	nextId := 0 // the first fresh ids are the corner byte patterns (all zero, all 0xff, …)
	var used []int
	for i := 0; i < steps; i++ {
		var live []*clientSub
		for _, cs := range w.subs {
			if cs.live {
				live = append(live, cs)
			}
		}
		x := r.Intn(100)
		switch {
		case len(live) == 0 || x < 18:
			p := pick(r, symPatterns)
			if r.Chance(8) {
				p = pick(r, badPatterns)
			} else if len(live) > 0 && r.Chance(25) {
				p = live[r.Intn(len(live))].pattern // a second handler on the same pattern
			}
			w.subscribe(pick(r, spaces), p)
		case x < 26:
			w.unsubscribe(live[r.Intn(len(live))])
		case x < 29:
			w.closeSpace(pick(r, spaces))
		case x < 34:
			w.setMember(pick(r, spaces), pick(r, accTokens), r.Chance(50))
		case x < 44:
			t := pick(r, symTopics)
			if r.Chance(15) {
				t = pick(r, badTopics)
			}
			w.ownPublish(pick(r, spaces), t, r.Chance(5))
		default:
			space := pick(r, spaces)
			// prefer a topic that a live subscription of the space matches
			topic := pick(r, symTopics)
			if r.Chance(75) {
				var cands []string
				for _, t := range symTopics {
					if len(w.matching(space, w.nm.real(t))) > 0 {
						cands = append(cands, t)
					}
				}
				if len(cands) > 0 {
					topic = cands[r.Intn(len(cands))]
				}
			}
			if r.Chance(5) {
				topic = pick(r, badTopics)
			}
			o := recvOpts{space: space, topic: topic, signer: pick(r, accTokens), tamper: "none", ts: "fresh", id: nextId}
			// an owner-namespace topic is usually signed by its owner
			if own := w.ownerTok(topic); own != "" && r.Chance(70) {
				o.signer = own
			}
			switch y := r.Intn(100); {
			case y < 30:
				o.tamper = pick(r, []string{"sig", "topic", "payload", "ts", "id", "ident", "space", "badident", "nosig", "relayed"})
			case y < 38:
				o.ts = pick(r, []string{"past", "future"})
			case y < 44:
				o.ts = "zero"
			}
			if len(used) > 0 && r.Chance(22) {
				// replay an id seen before: recent ones are still in the ring, old ones were evicted
				if r.Chance(70) {
					o.id = used[len(used)-1-r.Intn(min(len(used), dedupSize/2))]
				} else {
					o.id = used[r.Intn(len(used))]
				}
			} else {
				nextId++
			}
			o.keyId = r.Chance(4)
			w.receive(o)
			used = append(used, o.id)
		}
	}
	// teardown of the local side
	for _, i := range r.Perm(len(w.subs)) {
		cs := w.subs[i]
		if !cs.live {
			continue
		}
		if r.Chance(25) {
			w.closeSpace(cs.space)
		} else {
			w.unsubscribe(cs)
		}
	}
	w.checkLocalEmpty()
	r.Case(fmt.Sprint(w.ops), steps >= 10)
	if steps >= 20 {
		r.Sample(map[string]any{"stream": "pubsub.client", "ops": w.ops[:min(len(w.ops), 25)]})
	}
}

// dedupWitnessCase: corner message ids and the ring boundary, on every run. The specification ring
// (last dedupSize recorded ids) decides what counts as a replay, so the stated limit — an id is
// forgotten after dedupSize newer ones — is respected.
func dedupWitnessCase(r *corr.Run, accts []*acct) {
	w := newClientWorld(r, accts)
	defer w.shutdown()
	for _, a := range accTokens {
		w.setMember("s1", a, true)
	}
	w.subscribe("s1", ">")
	recv := func(id int) {
		w.receive(recvOpts{space: "s1", topic: "a/b", signer: "A1", tamper: "none", ts: "fresh", id: id})
	}
	for _, corner := range []int{0, 1, 2} {
		recv(corner)      // recorded
		recv(10 + corner) // one other new message
		recv(corner)      // replay of the corner id: still inside the ring, must be refused
	}
	// around the ring size: newer ids between original and replay (each receive is followed by one
	// own publish that also takes a slot)
	recv(50)
	recv(51)
	recv(52)
	recv(50)
	recv(53)
	recv(50)
	r.Case("DW "+fmt.Sprint(w.ops), true)
}

func (w *clientWorld) ownerTok(symTopic string) string {
	o := naiveOwner(symTopic)
	for _, a := range accTokens {
		if o == a {
			return a
		}
	}
	return ""
}

func Run(r *corr.Run) {
	r.SetRule("trie/topic: every string over segments {a,b,acc,*,>,empty} up to 4 segments plus boundary strings (length 255..257, 15..18 segments, misplaced wildcards) through both validators, splitTopic, TopicOwner; every (valid pattern, string) pair on the real trie against the segment-wise rule; the trie of all valid patterns matched against every string; random add/remove/match sequences with refcounts. service: random operation sequences (subscribe / unsubscribe / publish in all rejection classes / member change / evict / revalidate / close-space / stream close / write-side kill followed by frames) over up to 3 streams, 2 spaces (+2 malformed ids), 3 accounts on the real service in the relay role with fake streams in its real stream pool, each ending in a randomised teardown; client receive path with forged / stale / replayed / foreign-namespace frames. A case is non-trivial when it has >= 10 steps (and >= 2 streams on the serving side); distinct = distinct op sequences")
	runTrieStream(r)
	accts := newAccts(r, 4)
	dedupWitnessCase(r, accts)
	for _, keyed := range []bool{true, false} {
		for _, tp := range [][2]string{{"a/>", "a/b"}, {"a/*", "a/b/a"}, {"acc/*", "acc/A0"}} {
			e2eCase(r, accts, keyed, tp[0], tp[1])
		}
	}
	witnessCases(r, accts)
	raceWitnessCases(r, accts)
	nNode, nClient := r.Pick(600, 14000), r.Pick(300, 7000)
	for k := 0; (k < nNode || k < nClient) && r.TimeLeft(); k++ {
		if k < nNode {
			steps := 6 + r.Intn(40)
			nodeCase(r, accts, steps)
		}
		if k < nClient {
			clientCase(r, accts, 8+r.Intn(40))
		}
	}
}
