package pubsub

import (
	"context"
	"fmt"
	"sync"
	"time"

	"storj.io/drpc"

	"github.com/anyproto/any-sync/app"
	real "github.com/anyproto/any-sync/commonspace/pubsub"
	"github.com/anyproto/any-sync/commonspace/pubsub/pubsubproto"
	"github.com/anyproto/any-sync/net/streampool"
)

// ---------------------------------------------------------------------------------------------
// schedule points: the handlers' calls into the stream pool
//
// The service's private pool is replaced (verif export) by a wrapper that delegates to it. When a
// handler enters AddTagsCtx / RemoveTagsCtx / RemoveTagsById for an armed stream, the harness removes
// THAT stream from the pool right there (its context is cancelled, the pool's write loop closes it),
// so the pool removal and `onStreamClose` race with the handler that is in flight:
//   * if the handler holds remoteMu at that point (the lock discipline of handleSubscribe / evict /
//     CloseSpace), the close hook blocks until the handler is done — the harness lets the handler go
//     on and waits for the hook afterwards;
//   * if it does not (handleUnsubscribe by design; or a variant of the code that released the lock),
//     the hook runs to completion INSIDE the window before the pool call proceeds.
// Everything is channel-synchronised; whether the lock is held is read with TryLock from the handler's
// own goroutine while the rest of the system is quiescent. Timeouts only detect hangs.
// ---------------------------------------------------------------------------------------------

type hookObs struct {
	mu   sync.Mutex
	done map[uint32]chan struct{}
}

func (h *hookObs) ch(id uint32) chan struct{} {
	h.mu.Lock()
	defer h.mu.Unlock()
	if h.done == nil {
		h.done = map[uint32]chan struct{}{}
	}
	c := h.done[id]
	if c == nil {
		c = make(chan struct{})
		h.done[id] = c
	}
	return c
}

type raceArm struct {
	point string // addtags | removetagsctx | removetagsbyid
	sid   uint32
	fired bool
	held  bool // remoteMu was held by the handler at the schedule point
}

type poolWrapper struct {
	inner streampool.StreamPool
	w     *nodeWorld
}

func (p *poolWrapper) Init(a *app.App) error         { return p.inner.Init(a) }
func (p *poolWrapper) Name() string                  { return p.inner.Name() }
func (p *poolWrapper) Run(ctx context.Context) error { return p.inner.Run(ctx) }
func (p *poolWrapper) Close(ctx context.Context) error {
	return p.inner.Close(ctx)
}
func (p *poolWrapper) AddStream(stream drpc.Stream, queueSize int, tags ...string) error {
	return p.inner.AddStream(stream, queueSize, tags...)
}
func (p *poolWrapper) ReadStream(stream drpc.Stream, queueSize int, tags ...string) error {
	return p.inner.ReadStream(stream, queueSize, tags...)
}
func (p *poolWrapper) Send(ctx context.Context, msg drpc.Message, target streampool.PeerGetter) error {
	return p.inner.Send(ctx, msg, target)
}
func (p *poolWrapper) SendById(ctx context.Context, msg drpc.Message, peerIds ...string) error {
	return p.inner.SendById(ctx, msg, peerIds...)
}
func (p *poolWrapper) Broadcast(ctx context.Context, msg drpc.Message, tags ...string) error {
	return p.inner.Broadcast(ctx, msg, tags...)
}
func (p *poolWrapper) Streams(tags ...string) []drpc.Stream { return p.inner.Streams(tags...) }

func (p *poolWrapper) AddTagsCtx(ctx context.Context, tags ...string) error {
	if id, ok := streampool.CtxStreamId(ctx); ok {
		p.w.schedulePoint("addtags", id)
	}
	return p.inner.AddTagsCtx(ctx, tags...)
}

func (p *poolWrapper) RemoveTagsCtx(ctx context.Context, tags ...string) error {
	if id, ok := streampool.CtxStreamId(ctx); ok {
		p.w.schedulePoint("removetagsctx", id)
	}
	return p.inner.RemoveTagsCtx(ctx, tags...)
}

func (p *poolWrapper) RemoveTagsById(streamId uint32, tags ...string) error {
	p.w.schedulePoint("removetagsbyid", streamId)
	return p.inner.RemoveTagsById(streamId, tags...)
}

// installSchedulePoints wraps the service's pool and its close hook.
func (w *nodeWorld) installSchedulePoints() {
	w.hooks = &hookObs{}
	streampool.VerifWrapCloseHook(w.pool, func(orig func(uint32, string, []string)) func(uint32, string, []string) {
		return func(id uint32, peerId string, tags []string) {
			if orig != nil {
				orig(id, peerId, tags)
			}
			close(w.hooks.ch(id))
		}
	})
	real.VerifSetPool(w.svc, &poolWrapper{inner: w.pool, w: w})
}

func (w *nodeWorld) waitHook(id uint32, what string) {
	select {
	case <-w.hooks.ch(id):
	case <-time.After(hangTimeout):
		w.r.Fatal(fmt.Sprintf("hang: close hook of stream %d did not finish (%s); ops=%v", id, what, w.ops))
	}
}

// removeFromPool cancels the stream's context and waits until the pool has dropped it (the close
// hook follows in the same goroutine and may block on remoteMu).
func (w *nodeWorld) removeFromPool(s *nstream) {
	s.fs.cancel()
	select {
	case <-s.fs.closed:
	case <-time.After(hangTimeout):
		w.r.Fatal("hang: stream not closed after its context was cancelled")
	}
	deadline := time.Now().Add(hangTimeout)
	for {
		if _, in := w.poolIds()[s.sid]; !in {
			return
		}
		if time.Now().After(deadline) {
			w.r.Fatal(fmt.Sprintf("hang: stream %d stays in the pool after its close; ops=%v", s.sid, w.ops))
		}
		time.Sleep(20 * time.Microsecond) // polling the pool index; the outcome does not depend on the delay
	}
}

// schedulePoint runs in the goroutine of the handler that is calling into the pool.
func (w *nodeWorld) schedulePoint(point string, id uint32) {
	a := w.race
	if a == nil || a.fired || a.point != point || a.sid != id {
		return
	}
	a.fired = true
	a.held = real.VerifRemoteLocked(w.svc) // nobody else is running: held <=> held by this handler
	s := w.st[id]
	w.removeFromPool(s)
	if !a.held {
		// nothing keeps the close hook out of the window: let it run to completion here
		w.waitHook(id, "inside the "+point+" window")
	}
}

// afterRace completes a raced operation: the close hook has run by the time this returns.
func (w *nodeWorld) afterRace(s *nstream, what string) *raceArm {
	a := w.race
	w.race = nil
	if a == nil || !a.fired {
		return a
	}
	w.waitHook(s.sid, "after "+what)
	s.inPool = false
	delete(w.spec.streams, s.sid)
	w.r.Count("node.race." + what + ".lockheld_" + b01(a.held))
	return a
}

// askParts sends an op to the model and returns the observation and the state part of its answer.
func (w *nodeWorld) askParts(op string) (obs, state string) {
	w.ops = append(w.ops, op)
	if !useModel {
		return "", ""
	}
	ans := w.r.Ask(op)
	for i := 0; i+2 < len(ans); i++ {
		if ans[i:i+3] == " | " {
			return ans[:i], ans[i+3:]
		}
	}
	return ans, ""
}

func (w *nodeWorld) finishRaced(modelObs, modelState string) observation {
	w.settle()
	o := w.collect()
	v := w.views()
	if useModel {
		w.r.Check("C17", "pubsub.node.race", w.trace(), modelObs+" | "+modelState, o.String()+" | "+w.stateString(v))
	}
	w.viewsAgree(v)
	return o
}

// subscribeRace: the stream is removed from the pool while its own Subscribe frame is inside
// handleSubscribe, exactly when the handler enters AddTagsCtx.
func (w *nodeWorld) subscribeRace(s *nstream, space string, pats []string) {
	realPats := make([]string, len(pats))
	for i, p := range pats {
		realPats[i] = w.nm.real(p)
	}
	w.race = &raceArm{point: "addtags", sid: s.sid}
	w.push(s, &pubsubproto.PubSubMessage{Content: &pubsubproto.PubSubMessage_Subscribe{
		Subscribe: &pubsubproto.Subscribe{SpaceId: space, Topics: realPats}}}, "subscribe (raced)")
	a := w.afterRace(s, "subscribe")
	if a == nil || !a.fired {
		// the frame was rejected before tagging (or accepted nothing): an ordinary subscribe
		w.specSubscribe(s, space, pats)
		w.finishOp(fmt.Sprintf("nsub %d %s %s %s %s", s.sid, s.peer, s.ident, tok(space), toks(pats)))
		w.r.Count("node.race.subscribe.not_reached")
		return
	}
	// model: pool removal, then the subscribe (tagging fails, interest rolled back), then the hook
	w.askParts(fmt.Sprintf("npoolrm %d", s.sid))
	mObs, _ := w.askParts(fmt.Sprintf("nsub %d %s %s %s %s", s.sid, s.peer, s.ident, tok(space), toks(pats)))
	_, mState := w.askParts(fmt.Sprintf("nclose %d", s.sid))
	w.finishRaced(mObs, mState)
}

// unsubscribeRace: the stream closes between the record update and RemoveTagsCtx.
func (w *nodeWorld) unsubscribeRace(s *nstream, space string, pats []string) {
	realPats := make([]string, len(pats))
	for i, p := range pats {
		realPats[i] = w.nm.real(p)
	}
	w.race = &raceArm{point: "removetagsctx", sid: s.sid}
	w.push(s, &pubsubproto.PubSubMessage{Content: &pubsubproto.PubSubMessage_Unsubscribe{
		Unsubscribe: &pubsubproto.Unsubscribe{SpaceId: space, Topics: realPats}}}, "unsubscribe (raced)")
	w.specUnsubscribe(s, space, pats)
	a := w.afterRace(s, "unsubscribe")
	op := fmt.Sprintf("nunsub %d %s %s", s.sid, tok(space), toks(pats))
	if a == nil || !a.fired {
		w.finishOp(op)
		w.r.Count("node.race.unsubscribe.not_reached")
		return
	}
	w.askParts(op)
	mObs, mState := w.askParts(fmt.Sprintf("nkill %d", s.sid))
	w.finishRaced(mObs, mState)
}

// evictRace / closeSpaceRace: a victim stream closes when the loop reaches its RemoveTagsById.
func (w *nodeWorld) evictRace(space, acctTok string, victim *nstream) {
	w.race = &raceArm{point: "removetagsbyid", sid: victim.sid}
	w.svc.EvictMember(space, w.nm.byTok(acctTok).pub)
	for _, ss := range w.spec.streams {
		if ss.ident == acctTok {
			delete(ss.reg, space)
		}
	}
	a := w.afterRace(victim, "evict")
	op := fmt.Sprintf("nevict %s %s", tok(space), acctTok)
	if a == nil || !a.fired {
		w.finishOp(op)
		w.r.Count("node.race.evict.not_reached")
		return
	}
	w.askParts(op)
	mObs, mState := w.askParts(fmt.Sprintf("nkill %d", victim.sid))
	w.finishRaced(mObs, mState)
}

func (w *nodeWorld) closeSpaceRace(space string, victim *nstream) {
	w.race = &raceArm{point: "removetagsbyid", sid: victim.sid}
	w.svc.CloseSpace(space)
	for _, ss := range w.spec.streams {
		delete(ss.reg, space)
	}
	a := w.afterRace(victim, "closespace")
	op := fmt.Sprintf("nclosespace %s", tok(space))
	if a == nil || !a.fired {
		w.finishOp(op)
		w.r.Count("node.race.closespace.not_reached")
		return
	}
	w.askParts(op)
	mObs, mState := w.askParts(fmt.Sprintf("nkill %d", victim.sid))
	w.finishRaced(mObs, mState)
}
