package pubsub

import (
	"context"
	"fmt"
	"time"

	real "github.com/anyproto/any-sync/commonspace/pubsub"
	"github.com/anyproto/any-sync/commonspace/pubsub/pubsubproto"

	"verifharness/internal/corr"
)

// xorCrypto: a space read key (Deps.Crypto). Publish stamps the key id and encrypts; the signature
// covers the key id.
type xorCrypto struct{}

func (xorCrypto) x(b []byte) []byte {
	out := make([]byte, len(b))
	for i := range b {
		out[i] = b[i] ^ 0x5a
	}
	return out
}

func (c xorCrypto) Encrypt(_ string, payload []byte) (string, []byte, error) {
	return "readkey-1", c.x(payload), nil
}

func (c xorCrypto) Decrypt(_, keyId string, encrypted []byte) ([]byte, error) {
	if keyId != "readkey-1" {
		return nil, fmt.Errorf("unknown key %q", keyId)
	}
	return c.x(encrypted), nil
}

// e2eCase: delivery end to end over the node-to-node hop, with real services at every station.
// A frame signed with publisher A0's real key (keyed space: keyId + encrypted payload, as Publish
// builds it) enters node A on A0's stream; what A forwards to the other responsible nodes enters
// node B from a node peer; what B fans out to its subscriber stream is handed to a real client
// (receivePublish: membership, owner namespace, signature, dedup, decrypt). The subscriber behind
// B — and the one behind A — must get the message iff its pattern matches, and then exactly the
// original payload under the publisher's identity.
func e2eCase(r *corr.Run, accts []*acct, keyed bool, pattern, topic string) {
	const space = "s1"
	nm := newNames(accts)
	plain := []byte("hello-" + topic)
	p := &pubsubproto.Publish{
		SpaceId: space, Topic: nm.real(topic), MsgId: []byte("e2e-msg-00000001"), Payload: plain,
		TimestampMilli: time.Now().UnixMilli(),
	}
	var cr real.Crypto
	if keyed {
		cr = xorCrypto{}
		p.KeyId, p.Payload, _ = xorCrypto{}.Encrypt(space, plain)
	}
	pubAcct := nm.byTok("A0")
	if err := real.VerifSignPublish(pubAcct.keys.SignKey, p); err != nil {
		r.Fatal("sign: " + err.Error())
	}

	// node A: ingress
	a := newNodeWorld(r, accts)
	a.setMember(space, "A0", true)
	a.setMember(space, "A1", true)
	sPub := a.open("P0", "A0")
	sLoc := a.open("P1", "A1")
	a.subscribe(sLoc, space, []string{pattern})
	a.publish(sPub, pubOpts{space: space, topic: topic, ident: "A0", keyed: keyed, frame: p})
	forwards := a.lastObs.forwards
	local := a.lastObs.deliveries
	a.closeStream(sPub)
	a.closeStream(sLoc)
	a.shutdown()

	// node B: the other responsible node
	b := newNodeWorld(r, accts)
	b.setMember(space, "A2", true)
	b.setNodePeer("NA", true)
	sNode := b.open("NA", "-")
	sSub := b.open("P2", "A2")
	b.subscribe(sSub, space, []string{pattern})
	var remote []delivered
	for _, f := range forwards {
		b.publish(sNode, pubOpts{space: space, topic: topic, ident: "A0", relayed: true, keyed: keyed, frame: f})
		remote = append(remote, b.lastObs.deliveries...)
	}
	b.closeStream(sNode)
	b.closeStream(sSub)
	b.shutdown()

	// the subscribers' clients: one behind A, one behind B
	topicReal := nm.real(topic)
	wantMatch := naiveMatch(nm.real(pattern), topicReal) && naiveValidTopic(topicReal) &&
		(naiveOwner(topicReal) == "" || naiveOwner(topicReal) == pubAcct.id)
	check := func(where string, frames []delivered, self string) {
		c := newClientWorldOpt(r, accts, nm.byTok(self), cr, true)
		defer c.shutdown()
		c.mem.set(space, pubAcct.id, true)
		c.subscribe(space, pattern)
		var got []invocation
		for _, d := range frames {
			if err := c.sh.HandleMessage(context.Background(), "node", &pubsubproto.PubSubMessage{
				Content: &pubsubproto.PubSubMessage_Publish{Publish: d.p}}); err != nil {
				c.violate("HandleMessage: " + err.Error())
			}
			got = append(got, c.flush()...)
		}
		ops := []string{fmt.Sprintf("e2e keyed=%v pattern=%s topic=%s station=%q frames=%d", keyed, pattern, topic, where, len(frames))}
		want := 0
		if wantMatch {
			want = 1
		}
		if len(got) != want {
			r.Violate("C17", "", "pubsub.e2e.oracle", fmt.Sprintf("member A0 published on %s (keyed space: %v); the subscriber %s with pattern %s had its handler run %d times, the property requires %d", topic, keyed, where, pattern, len(got), want), ops)
		}
		for _, v := range got {
			if v.payload != string(plain) || v.account != "A0" || v.topic != topic {
				r.Violate("C17", "", "pubsub.e2e.oracle", fmt.Sprintf("subscriber %s saw (%s,%s,%q), published was (%s,A0,%q)", where, v.topic, v.account, v.payload, topic, plain), ops)
			}
		}
		r.Count(fmt.Sprintf("e2e.keyed_%s.delivered_%d", b01(keyed), len(got)))
	}
	check("behind the ingress node", local, "A1")
	check("behind the other responsible node", remote, "A2")
	r.Case(fmt.Sprintf("e2e %v %s %s", keyed, pattern, topic), true)
}
