// Package handshake drives the real any-sync credential handshake (net/secureservice/handshake,
// net/secureservice credential checkers) against the Lean model AnySync.Handshake (C14) and states
// the property directly on the observed verdicts.
package handshake

import (
	"context"
	"crypto/ed25519"
	"encoding/binary"
	"encoding/hex"
	"errors"
	"fmt"
	"io"
	"os"
	"runtime"
	"strconv"
	"strings"
	"sync"
	"time"

	"google.golang.org/protobuf/encoding/protowire"

	"github.com/anyproto/any-sync/commonspace/object/accountdata"
	"github.com/anyproto/any-sync/net/secureservice"
	hs "github.com/anyproto/any-sync/net/secureservice/handshake"
	"github.com/anyproto/any-sync/net/secureservice/handshake/handshakeproto"
	"github.com/anyproto/any-sync/util/crypto"

	"verifharness/internal/corr"
)

func init() {
	corr.RegisterArea("handshake", Run)
	corr.RegisterExtractor("handshake", extract)
}

const (
	hdr       = 5
	sizeLimit = 200 * 1024 // the property's frame bound; the extractor ties the model to the source value
	guard     = 20 * time.Second
	badClient = "middle:v0.36.6"
)

type account struct {
	keys    *accountdata.AccountKeys
	idBytes []byte
	rawPub  ed25519.PublicKey
}

type sigInfo struct {
	acct int
	msg  string
}

type world struct {
	r        *corr.Run
	accts    []account
	sigs     map[string]sigInfo // signature bytes -> what it signs (symbolic view for the model)
	clients  map[string]int
	foreign  map[string]int // valid identities not belonging to a harness account
	connSeed uint64

	chkMu       sync.Mutex
	checkers    map[string]hs.CredentialChecker
	services    map[string]*liveService
	retainedRes []retained
	// earlier operations on the same node that a reported input depends on (genuine handshakes
	// before a replay): prepended to the ops of violations so that the replay file is self-contained
	history []string
}

func newWorld(r *corr.Run) *world {
	w := &world{r: r, sigs: map[string]sigInfo{}, clients: map[string]int{}, foreign: map[string]int{},
		checkers: map[string]hs.CredentialChecker{}, services: map[string]*liveService{}}
	for i := 0; i < 4; i++ {
		k, err := accountdata.NewRandom()
		if err != nil {
			r.Fatal("account: " + err.Error())
		}
		idb, _ := k.SignKey.GetPublic().Marshall()
		raw, _ := k.SignKey.GetPublic().Raw()
		w.accts = append(w.accts, account{keys: k, idBytes: idb, rawPub: ed25519.PublicKey(raw)})
	}
	for _, c := range clientPool {
		w.client(c)
	}
	return w
}

var clientPool = []string{"", "v1", "cli/2.0", badClient, "x-" + badClient + "-y"}
var peerPool = []string{"pA", "pB", "pC", "pD"}

func (w *world) client(s string) string {
	n, ok := w.clients[s]
	if !ok {
		n = len(w.clients)
		w.clients[s] = n
	}
	if strings.Contains(s, badClient) {
		return fmt.Sprintf("%d!", n)
	}
	return strconv.Itoa(n)
}

func (w *world) sign(acct int, msg string) []byte {
	s, err := w.accts[acct].keys.SignKey.Sign([]byte(msg))
	if err != nil {
		w.r.Fatal("sign: " + err.Error())
	}
	w.sigs[string(s)] = sigInfo{acct, msg}
	return s
}

// identity interning: k<i> harness account, k<100+j> other valid key, b = not a valid key
func (w *world) ident(b []byte) string {
	for i, a := range w.accts {
		if string(a.idBytes) == string(b) {
			return fmt.Sprintf("k%d", i)
		}
	}
	if _, err := crypto.UnmarshalEd25519PublicKeyProto(b); err != nil {
		return "b"
	}
	n, ok := w.foreign[string(b)]
	if !ok {
		n = 100 + len(w.foreign)
		w.foreign[string(b)] = n
	}
	return fmt.Sprintf("k%d", n)
}

// ---------------------------------------------------------------------------------------------
// side configuration and execution of the real code

type sideCfg struct {
	role   string // "out" | "in"
	verify bool
	acct   int
	lp, rp string // own peer id, the transport peer id this side was given for the remote
	ver    uint32
	compat []uint32
	client string
	// service: drive the public secureservice path instead of the handshake functions directly
	service bool
	svc     svcMode
}

func (c sideCfg) wire(w *world) string {
	cs := make([]string, len(c.compat))
	for i, v := range c.compat {
		cs[i] = strconv.Itoa(int(v))
	}
	comp := strings.Join(cs, ",")
	if comp == "" {
		comp = "-"
	}
	return fmt.Sprintf("role=%s verify=%s acct=%d lp=%s rp=%s ver=%d compat=%s client=%s",
		c.role, b01(c.verify), c.acct, c.lp, c.rp, c.ver, comp, w.client(c.client))
}

func b01(b bool) string {
	if b {
		return "1"
	}
	return "0"
}

// checker returns the credential checker of a node with this configuration. Like the checkers of a
// running secure service it is ONE long-lived instance serving every connection of that node: all
// sessions with the same (mode, account, own peer id, version, accepted list, client) share it, so
// anything an instance remembers from earlier handshakes is exercised by later ones.
func (w *world) checker(c sideCfg) hs.CredentialChecker {
	key := fmt.Sprintf("%v|%d|%s|%d|%v|%s", c.verify, c.acct, c.lp, c.ver, c.compat, c.client)
	w.chkMu.Lock()
	defer w.chkMu.Unlock()
	if cc, ok := w.checkers[key]; ok {
		w.r.Count("checker.reused")
		return cc
	}
	var cc hs.CredentialChecker
	func() {
		// a constructor that cannot digest a configuration (e.g. an empty accepted list) must not take
		// the harness down: such a side is skipped (the public path replaces an empty list by the default)
		defer func() {
			if p := recover(); p != nil {
				cc = nil
				w.r.Count("checker.construct-panic")
			}
		}()
		if c.verify {
			a := w.accts[c.acct].keys
			cc = secureservice.VerifNewPeerSignVerifier(c.ver, c.compat, c.client,
				&accountdata.AccountKeys{PeerKey: a.PeerKey, SignKey: a.SignKey, PeerId: c.lp})
		} else {
			cc = secureservice.VerifNewNoVerifyChecker(c.ver, c.compat, c.client)
		}
	}()
	if cc == nil {
		return nil
	}
	w.checkers[key] = cc
	w.r.Count("checker.new")
	return cc
}

// retained: what an established connection got attached; must never change afterwards.
type retained struct {
	live []byte // the very slice handed out by the handshake / stored in the connection context
	snap []byte // its content at the time the connection was established
	ops  []string
	desc string
}

// recheckRetained: "the identity attached to the connection is the one that signature proves" is a
// statement about the connection for as long as it lives — re-evaluated after every later handshake.
func (w *world) recheckRetained(stream string, laterOps []string) {
	keep := w.retainedRes[:0]
	for _, rt := range w.retainedRes {
		if string(rt.live) != string(rt.snap) {
			w.r.Violate("C14", "", "hs.attached-identity-changed",
				fmt.Sprintf("identity attached to an established connection (%s) changed from %s to %s after a later handshake on the same node (%s)",
					rt.desc, w.ident(rt.snap), w.ident(rt.live), stream), append(append([]string{}, rt.ops...), laterOps...))
			continue
		}
		keep = append(keep, rt)
	}
	w.retainedRes = keep
	if len(w.retainedRes) > 48 {
		w.retainedRes = w.retainedRes[len(w.retainedRes)-48:]
	}
}

type sideRun struct {
	cfg    sideCfg
	c      *conn
	ctx    context.Context
	cancel context.CancelFunc
	done   chan struct{}
	res    hs.Result
	err    error
	pan    any
	skip   bool // the side could not be built (constructor panicked): not judged
	fed    []byte
	end    string // eof | stall
	// public path (secureservice through app.App): context attachments
	ctxPeerBad string
}

func (w *world) start(cfg sideCfg, chunky bool) *sideRun {
	w.connSeed++
	s := &sideRun{cfg: cfg, c: newConn(uint64(w.r.Seed)*1000003+w.connSeed, chunky), done: make(chan struct{}), end: "stall"}
	s.ctx, s.cancel = context.WithCancel(context.Background())
	cc := w.checker(cfg)
	if cc == nil && !cfg.service {
		s.skip = true
		s.err = errors.New("harness: checker not constructible")
		close(s.done)
		return s
	}
	if cfg.verify {
		// Ed25519 is deterministic: this is the very signature the real side will present
		w.sign(cfg.acct, cfg.lp+cfg.rp)
	}
	var viaService func() (hs.Result, error)
	if cfg.service {
		viaService = w.prepareService(cfg, s, cfg.svc)
	}
	go func() {
		defer close(s.done)
		defer func() {
			if p := recover(); p != nil {
				s.pan = p
			}
		}()
		if viaService != nil {
			s.res, s.err = viaService()
		} else if cfg.role == "out" {
			s.res, s.err = hs.OutgoingHandshake(s.ctx, s.c, cfg.rp, cc)
		} else {
			s.res, s.err = hs.IncomingHandshake(s.ctx, s.c, cfg.rp, cc)
		}
	}()
	return s
}

func (s *sideRun) feed(b []byte) {
	s.fed = append(s.fed, b...)
	s.c.feed(b)
}

func (s *sideRun) feedEOF() {
	s.end = "eof"
	s.c.feedEOF()
}

func (s *sideRun) finished() bool {
	select {
	case <-s.done:
		return true
	default:
		return false
	}
}

// settle: wait until the side is finished or parked in a read. false = hang.
func (s *sideRun) settle() bool { return s.c.quiesce(s.done, guard) }

// finish: the peer will send nothing more. A parked side is released through its context (this is
// the "deadline" of the property; real time is never compared).
func (s *sideRun) finish() bool {
	if !s.settle() {
		return false
	}
	if !s.finished() {
		s.cancel()
		select {
		case <-s.done:
		case <-time.After(guard):
			return false
		}
	}
	s.cancel()
	return true
}

func errEnum(err error) string {
	if err == nil {
		return "ok"
	}
	var he hs.HandshakeError
	switch {
	case err == hs.ErrPeerDeclinedCredentials:
		return "declined"
	case err == hs.ErrGotUnexpectedMessage:
		return "toobig"
	case errors.As(err, &he):
		if he.Err != nil {
			return "he-wrapped:" + strings.ReplaceAll(he.Err.Error(), " ", "_")
		}
		// the enum value is recovered from the text to avoid depending on unexported fields
		if v, ok := handshakeproto.Error_value[he.Error()]; ok {
			return fmt.Sprintf("he:%d", v)
		}
		if n, e := strconv.Atoi(he.Error()); e == nil {
			return fmt.Sprintf("he:%d", n)
		}
		return "he:?" + he.Error()
	case errors.Is(err, io.ErrUnexpectedEOF):
		return "ueof"
	case errors.Is(err, io.EOF):
		return "eof"
	case errors.Is(err, context.Canceled), errors.Is(err, context.DeadlineExceeded):
		return "ctx"
	case errors.Is(err, io.ErrClosedPipe):
		return "closed"
	case strings.HasPrefix(err.Error(), "proto:"):
		return "decode"
	}
	return "other:" + strings.ReplaceAll(err.Error(), " ", "_")
}

// observe renders the canonical observation of one finished side.
func (w *world) observe(s *sideRun) string {
	if s.pan != nil {
		return fmt.Sprintf("panic %v", s.pan)
	}
	var v string
	if s.err == nil {
		id := "-"
		if len(s.res.Identity) > 0 {
			id = w.ident(s.res.Identity)
		}
		v = fmt.Sprintf("ok id=%s ver=%d client=%s", id, s.res.ProtoVersion, w.client(s.res.ClientVersion))
	} else {
		v = "err " + errEnum(s.err)
	}
	return fmt.Sprintf("%s wrote=%s closed=%s maxread=%d", v, showFrames(s.c.written()), b01(s.c.isClosed()), s.c.maxReq)
}

// showFrames parses what a real side wrote: a sequence of well-formed frames.
func showFrames(b []byte) string {
	var out []string
	for len(b) > 0 {
		if len(b) < hdr {
			out = append(out, "?")
			break
		}
		n := int(binary.LittleEndian.Uint32(b[1:5]))
		if len(b) < hdr+n {
			out = append(out, "?")
			break
		}
		p := b[hdr : hdr+n]
		switch b[0] {
		case 1:
			out = append(out, "C")
		case 2:
			a := &handshakeproto.Ack{}
			if a.UnmarshalVT(p) != nil {
				out = append(out, "A?")
			} else {
				out = append(out, fmt.Sprintf("A%d", a.Error))
			}
		default:
			out = append(out, fmt.Sprintf("T%d", b[0]))
		}
		b = b[hdr+n:]
	}
	if len(out) == 0 {
		return "-"
	}
	return strings.Join(out, ",")
}

// ---------------------------------------------------------------------------------------------
// fresh decoding (the trusted generated decoder, run on a fresh message) → model descriptors

type present struct{ typ, payload, version, client bool }

func scanPresence(p []byte) (pr present, ok bool) {
	for len(p) > 0 {
		num, _, n := protowire.ConsumeField(p)
		if n < 0 {
			return pr, false
		}
		switch num {
		case 1:
			pr.typ = true
		case 2:
			pr.payload = true
		case 3:
			pr.version = true
		case 4:
			pr.client = true
		}
		p = p[n:]
	}
	return pr, true
}

func decErrKind(err error) string {
	if errors.Is(err, io.ErrUnexpectedEOF) {
		return "X:u"
	}
	return "X:p"
}

type freshCred struct {
	ok   bool
	c    *handshakeproto.Credentials
	pr   present
	pok  bool // payload decodes as PayloadSignedPeerIds
	pl   *handshakeproto.PayloadSignedPeerIds
	body string
}

func (w *world) freshCredDecode(p []byte) freshCred {
	c := &handshakeproto.Credentials{}
	if err := c.UnmarshalVT(p); err != nil {
		return freshCred{body: decErrKind(err)}
	}
	fc := freshCred{ok: true, c: c}
	pr, ok := scanPresence(p)
	if !ok {
		w.r.Count("presence.scan-fallback")
		pr = present{c.Type != 0, len(c.Payload) > 0, c.Version != 0, c.ClientVersion != ""}
	}
	fc.pr = pr
	opt := func(has bool, v string) string {
		if has {
			return v
		}
		return "-"
	}
	pd := "-"
	if pr.payload {
		pl := &handshakeproto.PayloadSignedPeerIds{}
		if err := pl.UnmarshalVT(c.Payload); err != nil {
			pd = "U"
		} else {
			fc.pok, fc.pl = true, pl
			sg := "g"
			if si, ok := w.sigs[string(pl.Sign)]; ok {
				sg = fmt.Sprintf("s%d.%s", si.acct, si.msg)
			}
			pd = fmt.Sprintf("S:%s:%s", w.ident(pl.Identity), sg)
		}
	}
	fc.body = fmt.Sprintf("C/%s/%s/%s/%s", opt(pr.typ, strconv.Itoa(int(c.Type))), opt(pr.version, strconv.Itoa(int(c.Version))),
		opt(pr.client, w.client(c.ClientVersion)), pd)
	return fc
}

func (w *world) describe(tp int, p []byte) string {
	switch tp {
	case 1:
		return w.freshCredDecode(p).body
	case 2:
		a := &handshakeproto.Ack{}
		if err := a.UnmarshalVT(p); err != nil {
			return decErrKind(err)
		}
		has := false
		q := p
		for len(q) > 0 {
			num, _, n := protowire.ConsumeField(q)
			if n < 0 {
				has = a.Error != 0
				break
			}
			if num == 1 {
				has = true
			}
			q = q[n:]
		}
		if !has {
			return "A-"
		}
		return fmt.Sprintf("A%d", a.Error)
	case 3:
		pm := &handshakeproto.Proto{}
		if err := pm.UnmarshalVT(p); err != nil {
			return decErrKind(err)
		}
		return "P"
	}
	return "X:p"
}

func hexOrDash(b []byte) string {
	if len(b) == 0 {
		return "-"
	}
	return hex.EncodeToString(b)
}

// askSess asks the model for the observation of one side given the exact bytes delivered to it.
func (w *world) askSess(cfg sideCfg, stream []byte, end string) (string, []string) {
	base := fmt.Sprintf("sess %s end=%s stream=%s", cfg.wire(w), end, hexOrDash(stream))
	var dec []string
	for i := 0; i < 6; i++ {
		d := "-"
		if len(dec) > 0 {
			d = strings.Join(dec, ";")
		}
		line := base + " dec=" + d
		ans := w.r.Ask(line)
		if !strings.HasPrefix(ans, "need ") {
			return ans, []string{shorten(line)}
		}
		f := strings.Fields(ans)
		if len(f) != 4 {
			return ans, []string{shorten(line)}
		}
		off, _ := strconv.Atoi(f[1])
		ln, _ := strconv.Atoi(f[2])
		tp, _ := strconv.Atoi(f[3])
		if off < 0 || ln < 0 || off+ln > len(stream) {
			return "bad-need " + ans, []string{shorten(line)}
		}
		dec = append(dec, fmt.Sprintf("%d:%d:%d:%s", tp, off, ln, w.describe(tp, stream[off:off+ln])))
	}
	return "need-loop", []string{shorten(base)}
}

func shorten(line string) string {
	if len(line) > 6000 {
		return line[:3000] + "…" + line[len(line)-2000:]
	}
	return line
}

// ---------------------------------------------------------------------------------------------
// the property, stated directly: when may a side report success, and with what result?

type legit struct {
	ok     bool
	why    string
	id     []byte
	ver    uint32
	client string
	noVerF bool // the credentials frame carries no version field
	noCliF bool
}

// readFrame: the frame discipline of the property (type whitelist, 200 KiB bound, complete frame).
func readFrame(b []byte, allowed ...byte) (tp byte, payload, rest []byte, why string) {
	if len(b) < hdr {
		return 0, nil, nil, "no complete header"
	}
	okT := false
	for _, a := range allowed {
		okT = okT || a == b[0]
	}
	if !okT {
		return 0, nil, nil, "frame type not expected here"
	}
	n := binary.LittleEndian.Uint32(b[1:5])
	if n > sizeLimit {
		return 0, nil, nil, "oversized frame"
	}
	if uint32(len(b)-hdr) < n {
		return 0, nil, nil, "truncated frame"
	}
	return b[0], b[hdr : hdr+int(n)], b[hdr+int(n):], ""
}

// credLegit: does this credentials payload satisfy the verifier's requirements?
func (w *world) credLegit(cfg sideCfg, p []byte) legit {
	fc := w.freshCredDecode(p)
	if !fc.ok {
		return legit{why: "credentials do not decode"}
	}
	l := legit{ver: fc.c.Version, client: fc.c.ClientVersion, noVerF: !fc.pr.version, noCliF: !fc.pr.client}
	inList := false
	for _, v := range cfg.compat {
		inList = inList || v == fc.c.Version
	}
	if !inList {
		l.why = fmt.Sprintf("peer version %d not in the accepted list %v", fc.c.Version, cfg.compat)
		return l
	}
	if cfg.verify {
		if fc.c.Type != handshakeproto.CredentialsType_SignedPeerIds || !fc.pok {
			l.why = "identity proof required but not presented"
			return l
		}
		pk, err := crypto.UnmarshalEd25519PublicKeyProto(fc.pl.Identity)
		if err != nil {
			l.why = "identity is not a valid key"
			return l
		}
		raw, _ := pk.Raw()
		if !ed25519.Verify(ed25519.PublicKey(raw), []byte(cfg.rp+cfg.lp), fc.pl.Sign) {
			l.why = "signature does not cover (prover peer id ++ verifier peer id)"
			return l
		}
		l.id = fc.pl.Identity
	}
	l.ok = true
	return l
}

// sideLegit: may the side with this configuration report success after receiving exactly `stream`?
func (w *world) sideLegit(cfg sideCfg, stream []byte) legit {
	_, p, rest, why := readFrame(stream, 1)
	if why != "" {
		return legit{why: "credentials frame: " + why}
	}
	l := w.credLegit(cfg, p)
	if !l.ok {
		return l
	}
	_, p2, _, why := readFrame(rest, 2)
	if why != "" {
		l.ok, l.why = false, "ack frame: "+why
		return l
	}
	a := &handshakeproto.Ack{}
	if err := a.UnmarshalVT(p2); err != nil || a.Error != handshakeproto.Error_Null {
		l.ok, l.why = false, "peer did not acknowledge"
		return l
	}
	return l
}

// judge applies the direct oracle to one finished side and the model correspondence.
func (w *world) judge(stream string, s *sideRun, hung bool) (obs string) {
	r := w.r
	if s.skip {
		return "skipped"
	}
	ops := []string{}
	if hung {
		r.Violate("C14", "", stream+".hang", "handshake neither returned nor waited on input within the guard", []string{"sess " + s.cfg.wire(w) + " stream=" + hexOrDash(s.fed)})
		return "hang"
	}
	obs = w.observe(s)
	model, ops := w.askSess(s.cfg, s.fed, s.end)
	if len(w.history) > 0 {
		ops = append(append([]string{}, w.history...), ops...)
	}
	// raw-peer and boundary streams are also the C11 evidence for the frame reader: property ""
	// = every property that lists this area
	prop := "C14"
	if strings.HasPrefix(stream, "hs.boundary") || strings.HasPrefix(stream, "hs.raw") {
		prop = ""
	}
	r.Check(prop, stream, ops, model, obs)
	if s.pan != nil {
		r.Violate(prop, "", stream+".panic", fmt.Sprintf("handshake panicked: %v", s.pan), ops)
		return
	}
	l := w.sideLegit(s.cfg, s.fed)
	if s.ctxPeerBad != "" {
		r.Violate("C14", "", stream+".ctx-peer", s.ctxPeerBad, ops)
	}
	if s.cfg.service {
		r.Count("via-service." + s.cfg.role)
	}
	if s.err == nil {
		switch {
		case !l.ok:
			sig := ""
			if (l.noVerF || l.noCliF) && strings.HasPrefix(l.why, "peer version") {
				sig = "F-handshake-pool"
			}
			r.Violate("C14", sig, stream+".success-not-allowed", "side reported success although: "+l.why, ops)
		case string(l.id) != string(s.res.Identity):
			r.Violate("C14", "", stream+".identity", "attached identity differs from the identity whose signature verified", ops)
		case l.ver != s.res.ProtoVersion || l.client != s.res.ClientVersion:
			sig := ""
			if l.noVerF || l.noCliF {
				sig = "F-handshake-pool"
			}
			r.Violate("C14", sig, stream+".result", fmt.Sprintf("attached version/client (%d,%q) differ from what the peer presented (%d,%q)",
				s.res.ProtoVersion, s.res.ClientVersion, l.ver, l.client), ops)
		}
	}
	// a side that did not accept the peer's credentials must never put ack(Null) on the wire: the
	// peer would read it as success and the two ends would disagree
	if wrote := showFrames(s.c.written()); strings.Contains(wrote, "A0") && !w.acceptedPeer(s) {
		r.Violate("C14", "", stream+".null-ack-on-rejection", "side sent ack(Null) although it did not accept the peer's credentials ("+l.why+"): its peer reads success while this side fails — different verdicts (wrote "+wrote+")", ops)
	}
	w.recheckRetained(stream, ops)
	if s.err == nil && len(s.res.Identity) > 0 {
		w.retainedRes = append(w.retainedRes, retained{live: s.res.Identity, snap: append([]byte{}, s.res.Identity...), ops: ops,
			desc: fmt.Sprintf("%s side %s, peer %s", s.cfg.role, s.cfg.lp, s.cfg.rp)})
	}
	if s.c.maxReq > sizeLimit+hdr {
		r.Violate(prop, "", stream+".alloc", fmt.Sprintf("a single read asked for %d bytes (> frame limit)", s.c.maxReq), ops)
	}
	r.Count("verdict." + strings.Fields(strings.TrimPrefix(obs, "err "))[0])
	return obs
}

func isOK(obs string) bool { return strings.HasPrefix(obs, "ok ") }

// ---------------------------------------------------------------------------------------------
// frame construction for the raw (hand-made) peer

type credSpec struct {
	typ      *uint32
	ver      *uint32
	client   *string
	payload  []byte // nil = field absent
	hasPl    bool
	extra    []byte // appended raw bytes (unknown fields / garbage)
	dupVer   *uint32
	verFirst bool
}

func u32(v uint32) *uint32 { return &v }
func str(s string) *string { return &s }

func (c credSpec) bytes() []byte {
	var b []byte
	if c.typ != nil {
		b = protowire.AppendTag(b, 1, protowire.VarintType)
		b = protowire.AppendVarint(b, uint64(*c.typ))
	}
	if c.hasPl {
		b = protowire.AppendTag(b, 2, protowire.BytesType)
		b = protowire.AppendBytes(b, c.payload)
	}
	if c.ver != nil {
		b = protowire.AppendTag(b, 3, protowire.VarintType)
		b = protowire.AppendVarint(b, uint64(*c.ver))
	}
	if c.client != nil {
		b = protowire.AppendTag(b, 4, protowire.BytesType)
		b = protowire.AppendString(b, *c.client)
	}
	if c.dupVer != nil {
		b = protowire.AppendTag(b, 3, protowire.VarintType)
		b = protowire.AppendVarint(b, uint64(*c.dupVer))
	}
	return append(b, c.extra...)
}

func signedPayload(id, sig []byte, hasID, hasSig bool) []byte {
	var b []byte
	if hasID {
		b = protowire.AppendTag(b, 1, protowire.BytesType)
		b = protowire.AppendBytes(b, id)
	}
	if hasSig {
		b = protowire.AppendTag(b, 2, protowire.BytesType)
		b = protowire.AppendBytes(b, sig)
	}
	return b
}

func frame(tp byte, payload []byte) []byte {
	b := make([]byte, hdr, hdr+len(payload))
	b[0] = tp
	binary.LittleEndian.PutUint32(b[1:], uint32(len(payload)))
	return append(b, payload...)
}

func ackFrame(e uint32, explicit bool) []byte {
	var p []byte
	if e != 0 || explicit {
		p = protowire.AppendTag(p, 1, protowire.VarintType)
		p = protowire.AppendVarint(p, uint64(e))
	}
	return frame(2, p)
}

// honestCred builds the credentials an honest peer with configuration c would present.
func (w *world) honestCred(c sideCfg) credSpec {
	cs := credSpec{}
	if c.ver != 0 {
		cs.ver = u32(c.ver)
	}
	if c.client != "" {
		cs.client = str(c.client)
	}
	if c.verify {
		cs.typ = u32(1)
		cs.hasPl = true
		cs.payload = signedPayload(w.accts[c.acct].idBytes, w.sign(c.acct, c.lp+c.rp), true, true)
	}
	return cs
}

// ---------------------------------------------------------------------------------------------
// generators

func (w *world) randCompat() []uint32 {
	r := w.r
	pool := []uint32{0, 1, 2, 9, 12, 13, 14}
	switch r.Intn(8) {
	case 0:
		return nil
	case 1:
		return []uint32{pool[r.Intn(len(pool))]}
	}
	var out []uint32
	for _, v := range pool {
		if r.Chance(45) {
			out = append(out, v)
		}
	}
	return out
}

func (w *world) randVer() uint32 {
	pool := []uint32{0, 1, 2, 8, 9, 10, 11, 12, 13, 14, 15}
	return pool[w.r.Intn(len(pool))]
}

func (w *world) randClient() string {
	r := w.r
	if r.Chance(8) {
		return clientPool[3+r.Intn(2)]
	}
	return clientPool[r.Intn(3)]
}

// randPair: configurations of the two ends. With `likely` the versions are steered towards mutual
// compatibility (otherwise most random pairs fail at the first gate).
func (w *world) randPair(likely bool) (o, i sideCfg) {
	r := w.r
	pa, pb := r.Intn(len(peerPool)), r.Intn(len(peerPool))
	for pb == pa {
		pb = r.Intn(len(peerPool))
	}
	o = sideCfg{role: "out", verify: r.Chance(60), acct: r.Intn(len(w.accts)), lp: peerPool[pa], rp: peerPool[pb], ver: w.randVer(), compat: w.randCompat(), client: w.randClient()}
	i = sideCfg{role: "in", verify: r.Chance(60), acct: r.Intn(len(w.accts)), lp: peerPool[pb], rp: peerPool[pa], ver: w.randVer(), compat: w.randCompat(), client: w.randClient()}
	if likely {
		if r.Chance(85) {
			o.compat = addVer(o.compat, i.ver)
		}
		if r.Chance(85) {
			i.compat = addVer(i.compat, o.ver)
		}
		if r.Chance(90) && strings.Contains(o.client, badClient) {
			o.client = "v1"
		}
		if r.Chance(90) && strings.Contains(i.client, badClient) {
			i.client = "v1"
		}
	}
	// identity is provable only by a side that signs: a verifier facing a NoVerify peer must fail
	return
}

func addVer(l []uint32, v uint32) []uint32 {
	for _, x := range l {
		if x == v {
			return l
		}
	}
	out := append([]uint32{}, l...)
	// insert at a random-ish position is irrelevant; keep sorted order of appearance
	return append(out, v)
}

func contains(l []uint32, v uint32) bool {
	for _, x := range l {
		if x == v {
			return true
		}
	}
	return false
}

// mutation of one frame travelling through the relay
type mutation struct {
	frame int    // 1..4 (0 = none)
	kind  string // see mutate
	arg   int
	stall bool // after a truncation: keep the stream open instead of closing it
}

var mutKinds = []string{"truncate", "oversize", "len+", "len-", "len0", "type", "swap-ack", "swap-cred", "garbage", "garbage-payload", "bitflip", "dup", "drop", "empty-payload",
	// credentials rewritten so that each distinct rejection path of both checkers is taken by a real side
	"cred-bad-identity", "cred-bad-sig", "cred-skipverify", "cred-bad-payload", "cred-bad-version", "cred-no-payload", "cred-bad-client", "cred-foreign-identity"}

// rewriteCred re-encodes a credentials frame with one aspect damaged; other frames are bit-flipped.
func (w *world) rewriteCred(kind string, f []byte) []byte {
	r := w.r
	if len(f) < hdr || f[0] != 1 {
		g := append([]byte{}, f...)
		g[len(g)-1] ^= 1
		return g
	}
	c := &handshakeproto.Credentials{}
	if c.UnmarshalVT(f[hdr:]) != nil {
		return f
	}
	pl := &handshakeproto.PayloadSignedPeerIds{}
	_ = pl.UnmarshalVT(c.Payload)
	cs := credSpec{}
	if c.Type != 0 {
		cs.typ = u32(uint32(c.Type))
	}
	if c.Version != 0 {
		cs.ver = u32(c.Version)
	}
	if c.ClientVersion != "" {
		cs.client = str(c.ClientVersion)
	}
	id, sig := pl.Identity, pl.Sign
	hasPl := len(c.Payload) > 0
	switch kind {
	case "cred-bad-identity":
		hasPl = true
		switch r.Intn(4) {
		case 0:
			id = []byte{1, 2, 3, 4, 5, 6, 7, 8, 9, 10} // not a key message
		case 1:
			id = protowire.AppendBytes(protowire.AppendTag(nil, 2, protowire.BytesType), make([]byte, 31)) // short key data
		case 2:
			id = protowire.AppendBytes(protowire.AppendTag(protowire.AppendVarint(protowire.AppendTag(nil, 1, protowire.VarintType), 1), 2, protowire.BytesType), make([]byte, 32)) // private-key type
		default:
			id = nil
		}
		if cs.typ == nil {
			cs.typ = u32(1)
		}
	case "cred-bad-sig":
		hasPl = true
		sig = append([]byte{}, sig...)
		if len(sig) == 0 {
			sig = []byte{1}
		} else {
			sig[r.Intn(len(sig))] ^= 0x10
		}
	case "cred-skipverify":
		cs.typ = nil
	case "cred-bad-payload":
		cs.hasPl, cs.payload = true, []byte{0xff, 0xff, 0xff}
		if cs.typ == nil {
			cs.typ = u32(1)
		}
		return frame(1, cs.bytes())
	case "cred-bad-version":
		cs.ver = u32(99)
	case "cred-no-payload":
		hasPl = false
		if cs.typ == nil {
			cs.typ = u32(1)
		}
	case "cred-bad-client":
		cs.client = str("x-" + badClient)
	case "cred-foreign-identity":
		// a well-formed key nobody signed with
		k, _ := accountdata.NewRandom()
		id, _ = k.SignKey.GetPublic().Marshall()
		hasPl = true
		if cs.typ == nil {
			cs.typ = u32(1)
		}
	}
	if hasPl {
		cs.hasPl, cs.payload = true, signedPayload(id, sig, len(id) > 0, len(sig) > 0)
	}
	return frame(1, cs.bytes())
}

// mutate returns the bytes delivered instead of the frame, and whether the stream ends afterwards.
func (w *world) mutate(m mutation, f []byte, prev []byte) (out []byte, cut bool) {
	r := w.r
	switch m.kind {
	case "truncate":
		n := r.Intn(len(f))
		if r.Chance(30) {
			n = min(len(f)-1, r.Intn(hdr+1))
		}
		return append([]byte{}, f[:n]...), true
	case "oversize":
		g := append([]byte{}, f...)
		sz := []uint32{sizeLimit + 1, sizeLimit + 2, 1 << 20, 1<<31 - 1, 1 << 31, 1<<32 - 1}[r.Intn(6)]
		binary.LittleEndian.PutUint32(g[1:5], sz)
		return g, r.Chance(50)
	case "len+":
		g := append([]byte{}, f...)
		binary.LittleEndian.PutUint32(g[1:5], uint32(len(f)-hdr+1+r.Intn(40)))
		return g, true
	case "len-":
		g := append([]byte{}, f...)
		if len(f) == hdr {
			return g[:hdr-1], true
		}
		binary.LittleEndian.PutUint32(g[1:5], uint32(r.Intn(len(f)-hdr)))
		return g, r.Chance(50)
	case "len0":
		g := append([]byte{}, f...)
		binary.LittleEndian.PutUint32(g[1:5], 0)
		return g, r.Chance(50)
	case "type":
		g := append([]byte{}, f...)
		g[0] = []byte{0, 3, 4, 7, 255, 1, 2}[r.Intn(7)]
		return g, r.Chance(30)
	case "swap-ack":
		return ackFrame(uint32(r.Intn(9)), r.Chance(30)), r.Chance(20)
	case "swap-cred":
		if len(prev) > 0 && r.Chance(60) {
			return append([]byte{}, prev...), false
		}
		return frame(1, credSpec{ver: u32(w.randVer())}.bytes()), false
	case "garbage":
		n := r.Intn(40)
		g := make([]byte, n)
		for i := range g {
			g[i] = byte(r.Intn(256))
		}
		if n > 0 && r.Chance(50) {
			g[0] = byte(1 + r.Intn(2))
		}
		if n >= hdr && r.Chance(60) {
			binary.LittleEndian.PutUint32(g[1:5], uint32(r.Intn(n)))
		}
		return g, true
	case "garbage-payload":
		n := r.Intn(48)
		g := make([]byte, n)
		for i := range g {
			g[i] = byte(r.Intn(256))
		}
		return frame(f[0], g), r.Chance(30)
	case "bitflip":
		g := append([]byte{}, f...)
		if len(g) > hdr {
			k := hdr + r.Intn(len(g)-hdr)
			g[k] ^= 1 << r.Intn(8)
		} else {
			g[0] ^= 1 << r.Intn(8)
		}
		return g, false
	case "dup":
		return append(append([]byte{}, f...), f...), false
	case "drop":
		return nil, !m.stall
	case "empty-payload":
		return frame(f[0], nil), false
	}
	if strings.HasPrefix(m.kind, "cred-") {
		return w.rewriteCred(m.kind, f), false
	}
	return f, false
}

// splitFrames cuts honest output into complete frames (the relay only ever sees honest writers).
func splitFrames(b []byte) (frames [][]byte, rest []byte) {
	for len(b) >= hdr {
		n := int(binary.LittleEndian.Uint32(b[1:5]))
		if len(b) < hdr+n {
			break
		}
		frames = append(frames, b[:hdr+n])
		b = b[hdr+n:]
	}
	return frames, b
}

type pairOutcome struct {
	out, in     *sideRun
	oObs, iObs  string
	frames      [5][]byte // honest frames as written (1..4)
	hung        bool
	cancelled   string
	inDoneAtCut bool
}

// runPair runs the two real sides against each other through a relay that forwards whole frames,
// optionally mutating one of them or cancelling one side at a frame boundary.
func (w *world) runPair(stream string, oc, ic sideCfg, m mutation, cancelAt int, cancelSide string) *pairOutcome {
	po := &pairOutcome{}
	chunky := w.r.Chance(80)
	po.out, po.in = w.start(oc, chunky), w.start(ic, chunky)
	if po.out.skip || po.in.skip {
		po.out.cancel()
		po.in.cancel()
		po.out.c.Close()
		po.in.c.Close()
		<-po.out.done
		<-po.in.done
		po.hung = true // callers return early; nothing is judged
		return po
	}
	sides := [2]*sideRun{po.out, po.in}
	pending := [2][]byte{}
	frameNo := 0
	var lastCred []byte
	cutTo := [2]bool{} // direction towards side k has been ended by the relay
	cancelled := false
	for step := 0; step < 40; step++ {
		if !po.out.settle() || !po.in.settle() {
			po.hung = true
			break
		}
		moved := false
		for k := 0; k < 2; k++ {
			pending[k] = append(pending[k], sides[k].c.take()...)
			fs, rest := splitFrames(pending[k])
			pending[k] = rest
			for _, f := range fs {
				frameNo++
				if frameNo <= 4 {
					po.frames[frameNo] = f
				}
				dst := sides[1-k]
				if cutTo[1-k] {
					continue
				}
				if cancelAt == frameNo && !cancelled {
					// hold this frame back, cancel the chosen side while it waits, end the stream
					cancelled = true
					cs := po.out
					if cancelSide == "in" {
						cs = po.in
					}
					if !cs.finished() {
						po.inDoneAtCut = po.in.finished()
						cs.cancel()
						<-cs.done
						po.cancelled = cancelSide
						// nothing is delivered to a side after its context ended
						if cancelSide == "out" {
							cutTo[0] = true
						} else {
							cutTo[1] = true
						}
					}
					cutTo[1-k] = true
					if !dst.finished() {
						dst.feedEOF()
					}
					moved = true
					continue
				}
				if m.frame == frameNo {
					g, cut := w.mutate(m, f, lastCred)
					dst.feed(g)
					if cut {
						cutTo[1-k] = true
						if !m.stall {
							dst.feedEOF()
						}
					}
				} else {
					dst.feed(f)
				}
				if f[0] == 1 {
					lastCred = f
				}
				moved = true
			}
		}
		// a finished side that failed: its caller closes the connection, the peer sees EOF
		for k := 0; k < 2; k++ {
			if sides[k].finished() && (sides[k].err != nil || sides[k].c.isClosed()) && !cutTo[1-k] && !sides[1-k].finished() {
				if sides[k].c.untaken() || len(pending[k]) > 0 {
					// it finished after this round's forwarding: deliver its last frames first
					moved = true
					continue
				}
				cutTo[1-k] = true
				sides[1-k].feedEOF()
				moved = true
			}
		}
		if po.out.finished() && po.in.finished() {
			break
		}
		if !moved {
			// nothing in flight and somebody still waits: only its deadline can end it
			for k := 0; k < 2; k++ {
				if !sides[k].finished() {
					if !sides[k].finish() {
						po.hung = true
					}
				}
			}
			break
		}
	}
	if !po.out.finished() || !po.in.finished() {
		po.hung = true
		po.out.cancel()
		po.in.cancel()
	}
	po.oObs = w.judge(stream+".out", po.out, po.hung && !po.out.finished())
	po.iObs = w.judge(stream+".in", po.in, po.hung && !po.in.finished())
	return po
}

// expectPairOK: the property's success condition for an undisturbed connection.
func (w *world) expectPairOK(oc, ic sideCfg) (bool, string) {
	if !contains(ic.compat, oc.ver) {
		return false, "initiator version not accepted by responder"
	}
	if !contains(oc.compat, ic.ver) {
		return false, "responder version not accepted by initiator"
	}
	// identity proofs: a verifying side needs a signed credential from the other side, made for
	// (prover's own peer id ++ the id the prover was given for the verifier) and checked against
	// (the id the verifier was given for the prover ++ verifier's own id)
	if ic.verify && !(oc.verify && oc.lp == ic.rp && oc.rp == ic.lp) {
		return false, "responder requires an identity proof bound to this connection"
	}
	if oc.verify && !(ic.verify && ic.lp == oc.rp && ic.rp == oc.lp) {
		return false, "initiator requires an identity proof bound to this connection"
	}
	return true, ""
}

func (w *world) pairLine(oc, ic sideCfg) string {
	return fmt.Sprintf("pair %s | %s", oc.wire(w), ic.wire(w))
}

func (w *world) honestPair(oc, ic sideCfg) *pairOutcome {
	r := w.r
	po := w.runPair("hs.pair", oc, ic, mutation{}, 0, "")
	line := w.pairLine(oc, ic)
	if po.hung {
		return po
	}
	// model of the two-sided run
	verdict := func(obs string) string {
		if i := strings.Index(obs, " wrote="); i >= 0 {
			return obs[:i]
		}
		return obs
	}
	model := r.Ask(line)
	r.Check("C14", "hs.pair.model", []string{line}, model, "out="+strings.ReplaceAll(verdict(po.oObs), " ", "_")+" in="+strings.ReplaceAll(verdict(po.iObs), " ", "_"))
	// the property, directly
	bad := strings.Contains(oc.client, badClient) || strings.Contains(ic.client, badClient)
	want, why := w.expectPairOK(oc, ic)
	oOK, iOK := isOK(po.oObs), isOK(po.iObs)
	switch {
	case oOK != iOK:
		r.Violate("C14", "", "hs.pair.same-verdict", fmt.Sprintf("the two ends disagree: out=%q in=%q", po.oObs, po.iObs), []string{line})
	case oOK && !want:
		r.Violate("C14", "", "hs.pair.success-not-allowed", "both ends succeeded although: "+why, []string{line})
	case !oOK && want && !bad:
		r.Violate("C14", "", "hs.pair.refused", fmt.Sprintf("compatible, correctly proven connection refused: out=%q in=%q", po.oObs, po.iObs), []string{line})
	}
	if oOK && iOK {
		// identity / versions attached = the peer's
		chk := func(s *sideRun, self, peer sideCfg) {
			wantID := ""
			if self.verify {
				wantID = string(w.accts[peer.acct].idBytes)
			}
			if string(s.res.Identity) != wantID || s.res.ProtoVersion != peer.ver || s.res.ClientVersion != peer.client {
				r.Violate("C14", "", "hs.pair.attached", fmt.Sprintf("%s side attached identity/version/client of somebody else", self.role), []string{line})
			}
		}
		chk(po.out, oc, ic)
		chk(po.in, ic, oc)
	}
	r.Case(line, true)
	r.Count("pair." + map[bool]string{true: "ok", false: "fail"}[oOK])
	r.Count(fmt.Sprintf("pair.modes.o%s.i%s", b01(oc.verify), b01(ic.verify)))
	if oOK && oc.verify && ic.verify {
		r.Sample(map[string]string{"op": line, "out": po.oObs, "in": po.iObs})
	}
	return po
}

func (w *world) mutatedPair(oc, ic sideCfg, m mutation) {
	r := w.r
	po := w.runPair("hs.mitm", oc, ic, m, 0, "")
	line := fmt.Sprintf("%s || mutate frame=%d kind=%s stall=%s", w.pairLine(oc, ic), m.frame, m.kind, b01(m.stall))
	r.Case(line+po.oObs+po.iObs, true)
	r.Count("mitm." + m.kind)
	r.Count(fmt.Sprintf("mitm.frame%d", m.frame))
	if po.hung {
		return
	}
	// per-side legitimacy was judged in runPair (sideLegit on the delivered bytes). Additionally:
	// a frame that breaks the frame discipline must make its receiver fail, and — unless it was the
	// last frame, after which the responder has already returned — the other end too.
	recv, other := po.in, po.out
	if m.frame == 2 || m.frame == 4 {
		recv, other = po.out, po.in
	}
	l := w.sideLegit(recv.cfg, recv.fed)
	if !l.ok {
		r.Count("mitm.receiver-must-fail")
		if recv.err == nil {
			return // already reported by judge
		}
		// once the initiator has sent its final ack the responder's verdict no longer depends on
		// anything the initiator receives (no protocol can do better after the last message)
		if other.err == nil && !(other == po.in && w.acceptedPeer(po.out)) {
			r.Violate("C14", "", "hs.mitm.other-side", fmt.Sprintf("frame %d was corrupted (%s): receiver failed but the other end reported success", m.frame, l.why), []string{line})
		}
	} else {
		// the relay produced a different but well-formed, acceptable message (e.g. an error ack
		// rewritten into ack(Null)): each side was judged on the bytes it received; the property
		// does not promise anything about forged-but-valid frames (no frame authentication here)
		r.Count("mitm.still-legit")
	}
}

// acceptedPeer: the side received a complete credentials frame that satisfies its checker — only
// then may it have sent ack(Null), after which the responder's verdict no longer depends on it.
func (w *world) acceptedPeer(s *sideRun) bool {
	_, p, _, why := readFrame(s.fed, 1)
	return why == "" && w.credLegit(s.cfg, p).ok
}

func (w *world) cancelledPair(oc, ic sideCfg, at int, side string) {
	r := w.r
	po := w.runPair("hs.cancel", oc, ic, mutation{}, at, side)
	line := fmt.Sprintf("%s || cancel side=%s before-frame=%d", w.pairLine(oc, ic), side, at)
	r.Case(line, true)
	if po.hung || po.cancelled == "" {
		r.Count("cancel.not-reached")
		return
	}
	r.Count(fmt.Sprintf("cancel.%s.frame%d", side, at))
	cs, other := po.out, po.in
	if side == "in" {
		cs, other = po.in, po.out
	}
	if cs.err == nil {
		r.Violate("C14", "", "hs.cancel.local", "a side cancelled while waiting reported success", []string{line})
	}
	// the other end must fail too, except the responder that had already returned before the
	// initiator was cancelled (after the last ack no protocol can do better)
	if other.err == nil && !(other == po.in && w.acceptedPeer(po.out)) {
		r.Violate("C14", "", "hs.cancel.remote", "peer of a cancelled side reported success", []string{line})
	}
}

// rawSession: a hand-made peer writes `stream` to one real side and then closes or stalls.
func (w *world) rawSession(stream string, cfg sideCfg, data []byte, end string, pieces bool) *sideRun {
	s := w.start(cfg, w.r.Chance(70))
	if pieces && len(data) > 1 {
		k := 1 + w.r.Intn(len(data)-1)
		s.feed(data[:k])
		s.settle()
		s.feed(data[k:])
	} else {
		s.feed(data)
	}
	if end == "eof" {
		s.feedEOF()
	}
	hung := !s.finish()
	w.judge(stream, s, hung)
	return s
}

func (w *world) randSide(role string) sideCfg {
	r := w.r
	pa, pb := r.Intn(len(peerPool)), r.Intn(len(peerPool))
	for pb == pa {
		pb = r.Intn(len(peerPool))
	}
	c := sideCfg{role: role, verify: r.Chance(55), acct: r.Intn(len(w.accts)), lp: peerPool[pa], rp: peerPool[pb], ver: w.randVer(), compat: w.randCompat(), client: w.randClient()}
	if r.Chance(70) && len(c.compat) == 0 {
		c.compat = []uint32{13}
	}
	return c
}

// randCredSpec: credentials for a raw peer talking to `victim`; `good` steers towards acceptance.
func (w *world) randCredSpec(victim sideCfg, good bool) credSpec {
	r := w.r
	cs := credSpec{}
	// version
	switch {
	case good && len(victim.compat) > 0:
		v := victim.compat[r.Intn(len(victim.compat))]
		if v != 0 || r.Chance(50) {
			cs.ver = u32(v)
		}
	case r.Chance(25):
		// no version field at all
	default:
		cs.ver = u32(w.randVer())
	}
	if r.Chance(50) {
		cs.client = str(w.randClient())
	}
	// type + payload
	signer := r.Intn(len(w.accts))
	idAcct := signer
	prover, verifier := victim.rp, victim.lp
	if !good || r.Chance(15) {
		switch r.Intn(6) {
		case 0:
			idAcct = (signer + 1) % len(w.accts) // identity of somebody else
		case 1:
			prover, verifier = verifier, prover // signed in the wrong order
		case 2:
			prover = peerPool[r.Intn(len(peerPool))] // signed for another prover id
		case 3:
			verifier = peerPool[r.Intn(len(peerPool))]
		case 4:
			prover, verifier = prover+verifier, "" // whole message under one id
		}
	}
	id := w.accts[idAcct].idBytes
	sig := w.sign(signer, prover+verifier)
	kind := r.Intn(14)
	if good {
		kind = 0
	}
	switch kind {
	case 0, 1, 2, 3, 4:
		cs.typ, cs.hasPl, cs.payload = u32(1), true, signedPayload(id, sig, true, true)
	case 5:
		cs.hasPl, cs.payload = true, signedPayload(id, sig, true, true) // type field missing (SkipVerify)
	case 6:
		cs.typ = u32(1) // no payload
	case 7:
		cs.typ, cs.hasPl, cs.payload = u32(1), true, signedPayload(id, nil, true, false)
	case 8:
		cs.typ, cs.hasPl, cs.payload = u32(1), true, signedPayload(nil, sig, false, true)
	case 9:
		g := append([]byte{}, sig...)
		g[r.Intn(len(g))] ^= 1 << r.Intn(8)
		cs.typ, cs.hasPl, cs.payload = u32(1), true, signedPayload(id, g, true, true)
	case 10:
		g := append([]byte{}, id...)
		g[r.Intn(len(g))] ^= 1 << r.Intn(8)
		cs.typ, cs.hasPl, cs.payload = u32(1), true, signedPayload(g, sig, true, true)
	case 11:
		g := make([]byte, r.Intn(20))
		for i := range g {
			g[i] = byte(r.Intn(256))
		}
		cs.typ, cs.hasPl, cs.payload = u32(uint32(r.Intn(3))), true, g
	case 12: // identity that is not a key message at all / key data of the wrong length
		bad := [][]byte{{1, 2, 3}, protowire.AppendBytes(protowire.AppendTag(nil, 2, protowire.BytesType), make([]byte, 31)), id[:len(id)-1]}[r.Intn(3)]
		cs.typ, cs.hasPl, cs.payload = u32(1), true, signedPayload(bad, sig, true, true)
	case 13: // private-key typed identity
		bad := protowire.AppendBytes(protowire.AppendTag(protowire.AppendVarint(protowire.AppendTag(nil, 1, protowire.VarintType), 1), 2, protowire.BytesType), make([]byte, 32))
		cs.typ, cs.hasPl, cs.payload = u32(1), true, signedPayload(bad, sig, true, true)
	}
	if r.Chance(10) {
		cs.dupVer = u32(w.randVer())
	}
	if r.Chance(10) {
		// unknown field 9 (varint) / 10 (bytes)
		cs.extra = protowire.AppendVarint(protowire.AppendTag(nil, 9, protowire.VarintType), uint64(r.Intn(1000)))
	}
	return cs
}

func (w *world) rawRandom() {
	r := w.r
	role := "in"
	if r.Chance(45) {
		role = "out"
	}
	victim := w.randSide(role)
	if serviceable(victim) && r.Chance(25) {
		victim.service, victim.svc = true, svcMode{r.Chance(50)}
	}
	good := r.Chance(55)
	cs := w.randCredSpec(victim, good)
	credF := frame(1, cs.bytes())
	var ack []byte
	switch r.Intn(10) {
	case 0:
		ack = ackFrame(uint32(1+r.Intn(8)), false)
	case 1:
		ack = ackFrame(0, true)
	case 2:
		ack = nil
	default:
		ack = ackFrame(0, false)
	}
	data := append(append([]byte{}, credF...), ack...)
	kind := "plain"
	if r.Chance(45) {
		// structure-level damage of the byte stream
		m := mutation{kind: mutKinds[r.Intn(len(mutKinds))]}
		kind = m.kind
		if r.Chance(50) {
			g, cut := w.mutate(m, credF, credF)
			data = g
			if !cut {
				data = append(data, ack...)
			}
		} else if len(ack) > 0 {
			g, _ := w.mutate(m, ack, credF)
			data = append(append([]byte{}, credF...), g...)
		}
	}
	end := "eof"
	if r.Chance(25) {
		end = "stall"
	}
	s := w.rawSession("hs.raw."+role, victim, data, end, r.Chance(30))
	r.Case(fmt.Sprintf("raw %s %x %s", victim.wire(w), data, end), true)
	r.Count("raw." + role + "." + kind)
	if s.err == nil {
		r.Count("raw.accepted")
	}
}

// boundary: every stream length around the header, every guard of readMsg on both sides
func (w *world) boundaries() {
	r := w.r
	for _, role := range []string{"in", "out"} {
		victim := sideCfg{role: role, verify: false, acct: 0, lp: "pA", rp: "pB", ver: 13, compat: []uint32{0, 13}, client: "v1"}
		cred := frame(1, credSpec{ver: u32(13)}.bytes())
		full := append(append([]byte{}, cred...), ackFrame(0, false)...)
		for n := 0; n <= len(full); n++ {
			for _, end := range []string{"eof", "stall"} {
				w.rawSession("hs.boundary.len", victim, full[:n], end, false)
				r.Case(fmt.Sprintf("b-len %s %d %s", role, n, end), n > 0)
				r.Count("boundary.len")
			}
		}
		// every type byte
		for tp := 0; tp < 256; tp++ {
			if tp > 6 && tp < 250 && tp%37 != 0 {
				continue
			}
			g := append([]byte{}, full...)
			g[0] = byte(tp)
			w.rawSession("hs.boundary.type1", victim, g, "eof", false)
			g = append([]byte{}, full...)
			g[len(cred)] = byte(tp)
			w.rawSession("hs.boundary.type2", victim, g, "eof", false)
			r.Case(fmt.Sprintf("b-type %s %d", role, tp), true)
			r.Count("boundary.type")
		}
		// size field around the limit, with and without the announced bytes present
		for _, sz := range []uint32{0, 1, sizeLimit - 1, sizeLimit, sizeLimit + 1, 1<<31 - 1, 1 << 31, 1<<32 - 1} {
			for _, fill := range []bool{false, true} {
				h := make([]byte, hdr)
				h[0] = 1
				binary.LittleEndian.PutUint32(h[1:], sz)
				data := h
				if fill && sz <= sizeLimit+1 {
					// a credentials message padded by an unknown bytes field to exactly sz bytes
					data = append(data, padCred(int(sz))...)
					data = append(data, ackFrame(0, false)...)
				}
				for _, end := range []string{"eof", "stall"} {
					w.rawSession("hs.boundary.size", victim, data, end, false)
				}
				r.Case(fmt.Sprintf("b-size %s %d %v", role, sz, fill), true)
				r.Count("boundary.size")
			}
		}
		// ack error values on both ack positions
		for e := 0; e <= 9; e++ {
			if role == "out" {
				w.rawSession("hs.boundary.ack1", victim, ackFrame(uint32(e), e == 0), "eof", false)
			}
			w.rawSession("hs.boundary.ack2", victim, append(append([]byte{}, cred...), ackFrame(uint32(e), false)...), "eof", false)
			r.Count("boundary.ack")
		}
	}
}

// padCred: a decodable Credentials message of exactly n bytes (version 13 + unknown padding field).
func padCred(n int) []byte {
	base := credSpec{ver: u32(13)}.bytes()
	if n < len(base)+3 {
		return make([]byte, n) // zeros: not decodable (tag 0) — still exercises the size path
	}
	for l := n; l >= 0; l-- {
		b := protowire.AppendTag(append([]byte{}, base...), 15, protowire.BytesType)
		b = protowire.AppendBytes(b, make([]byte, l))
		if len(b) == n {
			return b
		}
		if len(b) < n {
			break
		}
	}
	return make([]byte, n)
}

// replay: credentials recorded on connection (p,q) are presented by a raw peer on other endpoints.
func (w *world) replays() {
	r := w.r
	oc, ic := w.randPair(true)
	oc.verify, ic.verify = true, true
	oc.client, ic.client = "v1", "cli/2.0"
	oc.compat, ic.compat = addVer(oc.compat, ic.ver), addVer(ic.compat, oc.ver)
	po := w.honestPair(oc, ic)
	if po.hung || !isOK(po.oObs) || !isOK(po.iObs) {
		r.Count("replay.recording-failed")
		return
	}
	f1, f2, f3, f4 := po.frames[1], po.frames[2], po.frames[3], po.frames[4]
	w.history = []string{"genuine handshake first: " + w.pairLine(oc, ic)}
	defer func() { w.history = nil }()
	others := []string{}
	for _, p := range peerPool {
		others = append(others, p)
	}
	for _, claimed := range others { // transport id the verifier sees for the replaying peer
		for _, local := range others { // verifier's own id
			if claimed == local {
				continue
			}
			// replay the initiator's frames (1,3) to a responder
			v := ic
			v.lp, v.rp = local, claimed
			if r.Chance(50) {
				v.acct = r.Intn(len(w.accts))
			}
			s := w.rawSession("hs.replay.in", v, append(append([]byte{}, f1...), f3...), "eof", r.Chance(30))
			same := claimed == oc.lp && local == oc.rp
			if s.err == nil && !same {
				r.Violate("C14", "", "hs.replay.accepted", fmt.Sprintf("credentials recorded on (%s,%s) accepted on (%s,%s)", oc.lp, oc.rp, claimed, local),
					[]string{"sess " + v.wire(w) + " stream=" + hexOrDash(s.fed)})
			}
			if s.err != nil && same {
				r.Violate("C14", "", "hs.replay.same-endpoints", "recorded credentials refused on the very same endpoints (signature is deterministic: must verify)",
					[]string{"sess " + v.wire(w) + " stream=" + hexOrDash(s.fed)})
			}
			// replay the responder's frames (2,4) to an initiator
			v2 := oc
			v2.lp, v2.rp = local, claimed
			s2 := w.rawSession("hs.replay.out", v2, append(append([]byte{}, f2...), f4...), "eof", r.Chance(30))
			same2 := claimed == ic.lp && local == ic.rp
			if s2.err == nil && !same2 {
				r.Violate("C14", "", "hs.replay.accepted", fmt.Sprintf("credentials recorded on (%s,%s) accepted on (%s,%s)", ic.lp, ic.rp, claimed, local),
					[]string{"sess " + v2.wire(w) + " stream=" + hexOrDash(s2.fed)})
			}
			if s2.err != nil && same2 {
				r.Violate("C14", "", "hs.replay.same-endpoints", "recorded credentials refused on the very same endpoints",
					[]string{"sess " + v2.wire(w) + " stream=" + hexOrDash(s2.fed)})
			}
			r.Case(fmt.Sprintf("replay %s %s %s", claimed, local, w.pairLine(oc, ic)), true)
			r.Count("replay." + map[bool]string{true: "same", false: "other"}[same])
		}
	}
}

// poolSessions: sessions that follow each other on the package's handshake pool. A peer that
// supplied a version is followed by a raw peer whose credentials omit the version (and client)
// field; the second session must be judged on its own bytes only.
func (w *world) poolSessions(single bool) {
	r := w.r
	if single {
		prev := runtime.GOMAXPROCS(1)
		defer runtime.GOMAXPROCS(prev)
	}
	role := "in"
	if r.Chance(40) {
		role = "out"
	}
	victim := w.randSide(role)
	v := []uint32{1, 2, 12, 13, 14}[r.Intn(5)]
	victim.compat = []uint32{v}
	if r.Chance(30) {
		victim.compat = append(victim.compat, v+1)
	}
	rounds := 3 + r.Intn(4)
	for k := 0; k < rounds; k++ {
		// 1. a peer presenting version v (accepted or not for other reasons)
		good := w.randCredSpec(victim, true)
		good.ver = u32(v)
		good.client = str("cli/2.0")
		good.dupVer = nil
		w.rawSession("hs.pool.first", victim, append(frame(1, good.bytes()), ackFrame(0, false)...), "eof", false)
		// 2. the next peer omits version and/or client
		nxt := w.randCredSpec(victim, true)
		nxt.dupVer = nil
		nxt.ver = nil
		if r.Chance(50) {
			nxt.client = nil
		}
		if r.Chance(20) {
			nxt.ver = u32(0) // explicit zero on the wire
		}
		s := w.rawSession("hs.pool.second", victim, append(frame(1, nxt.bytes()), ackFrame(0, false)...), "eof", false)
		r.Case(fmt.Sprintf("pool %s %d %x", victim.wire(w), k, s.fed), true)
		r.Count("pool.sequential")
	}
}

// gapMatrix: the accepted list is a SET. Non-contiguous lists, probed on either side with every
// member, every value inside a gap, the value just below the minimum and just above the maximum.
func (w *world) gapMatrix() {
	r := w.r
	for _, list := range [][]uint32{{9, 12, 13}, {1, 13}, {0, 2, 14}, {13, 9}} {
		lo, hi := list[0], list[0]
		for _, v := range list {
			lo, hi = min(lo, v), max(hi, v)
		}
		var probes []uint32
		if lo > 0 {
			probes = append(probes, lo-1)
		}
		for v := lo; v <= hi+1; v++ {
			probes = append(probes, v)
		}
		for _, v := range probes {
			for _, verify := range []bool{false, true} {
				for _, probeIsOut := range []bool{true, false} {
					// the probing side speaks v; the other side accepts exactly `list`; everything else is compatible
					oc := sideCfg{role: "out", verify: verify, acct: 0, lp: "pA", rp: "pB", ver: v, compat: []uint32{list[0]}, client: "v1"}
					ic := sideCfg{role: "in", verify: verify, acct: 1, lp: "pB", rp: "pA", ver: list[0], compat: list, client: "cli/2.0"}
					if !probeIsOut {
						oc = sideCfg{role: "out", verify: verify, acct: 0, lp: "pA", rp: "pB", ver: list[0], compat: list, client: "v1"}
						ic = sideCfg{role: "in", verify: verify, acct: 1, lp: "pB", rp: "pA", ver: v, compat: []uint32{list[0]}, client: "cli/2.0"}
					}
					w.honestPair(oc, ic)
					r.Count("gap-matrix." + map[bool]string{true: "member", false: "non-member"}[contains(list, v)])
				}
			}
		}
	}
}

// instanceHistory: ONE verifying node serves several genuine handshakes from distinct accounts and
// transport peers, one after the other; after each of them every earlier connection is re-examined
// (attached identity unchanged), and frames recorded on an earlier, genuinely accepted connection are
// replayed byte for byte to the SAME node from other transport peers.
func (w *world) instanceHistory(single bool) {
	r := w.r
	if single {
		prev := runtime.GOMAXPROCS(1)
		defer runtime.GOMAXPROCS(prev)
	}
	role := "in"
	if r.Chance(40) {
		role = "out"
	}
	node := sideCfg{role: role, verify: true, acct: r.Intn(len(w.accts)), lp: peerPool[r.Intn(len(peerPool))], ver: 13, compat: []uint32{12, 13}, client: "v1"}
	if r.Chance(40) {
		node.service, node.svc = true, svcMode{r.Chance(50)}
	}
	type rec struct {
		rp     string
		stream []byte
		op     string
	}
	defer func() { w.history = nil }()
	var recs []rec
	perm := r.Perm(len(w.accts))
	for k := 0; k < 2+r.Intn(3); k++ {
		acct := perm[k%len(perm)]
		v := node
		for v.rp = peerPool[r.Intn(len(peerPool))]; v.rp == v.lp; v.rp = peerPool[r.Intn(len(peerPool))] {
		}
		cs := credSpec{typ: u32(1), ver: u32(12 + uint32(r.Intn(2))), client: str("cli/2.0"), hasPl: true,
			payload: signedPayload(w.accts[acct].idBytes, w.sign(acct, v.rp+v.lp), true, true)}
		data := append(frame(1, cs.bytes()), ackFrame(0, false)...)
		s := w.rawSession("hs.history.genuine", v, data, "eof", false)
		if s.err != nil {
			r.Violate("C14", "", "hs.history.refused", "a genuine, correctly signed handshake was refused by a node that served other connections before",
				[]string{"sess " + v.wire(w) + " stream=" + hexOrDash(s.fed)})
		} else {
			recs = append(recs, rec{v.rp, data, "sess " + v.wire(w) + " stream=" + hexOrDash(data)})
			w.history = append(w.history, "earlier on this node: "+recs[len(recs)-1].op)
		}
		r.Count("history.genuine")
	}
	// byte-exact replays to the very node that accepted them, from other transport peers
	for _, rc := range recs {
		for _, other := range peerPool {
			if other == rc.rp || other == node.lp {
				continue
			}
			v := node
			v.rp = other
			s := w.rawSession("hs.history.replay", v, rc.stream, "eof", false)
			if s.err == nil {
				r.Violate("C14", "", "hs.replay.accepted", fmt.Sprintf("credentials accepted on (%s,%s) were accepted again, byte for byte, from transport peer %s by the same node", rc.rp, node.lp, other),
					[]string{rc.op, "sess " + v.wire(w) + " stream=" + hexOrDash(s.fed)})
			}
			r.Count("history.replay")
		}
	}
	r.Case(fmt.Sprintf("history %s %d", node.wire(w), len(recs)), true)
}

func (w *world) poolConcurrent() {
	r := w.r
	n := 4 + r.Intn(8)
	var wg sync.WaitGroup
	var mu sync.Mutex
	type job struct {
		cfg  sideCfg
		data []byte
	}
	jobs := make([]job, n)
	for i := range jobs {
		role := "in"
		if r.Chance(40) {
			role = "out"
		}
		victim := w.randSide(role)
		cs := w.randCredSpec(victim, r.Chance(60))
		if r.Chance(40) {
			cs.ver, cs.dupVer = nil, nil
		}
		jobs[i] = job{victim, append(frame(1, cs.bytes()), ackFrame(0, false)...)}
	}
	runs := make([]*sideRun, n)
	hung := make([]bool, n)
	for i := range jobs {
		wg.Add(1)
		mu.Lock()
		s := w.start(jobs[i].cfg, true)
		mu.Unlock()
		runs[i] = s
		go func(i int) {
			defer wg.Done()
			s.feed(jobs[i].data)
			s.feedEOF()
			hung[i] = !s.finish()
		}(i)
	}
	wg.Wait()
	for i, s := range runs {
		w.judge("hs.pool.concurrent", s, hung[i])
		r.Count("pool.concurrent")
	}
	r.Case(fmt.Sprintf("poolc %d %x", n, jobs[0].data), true)
}

func Run(r *corr.Run) {
	r.SetRule("a case counts when at least one real handshake side consumed at least one byte; distinctness by configuration + delivered bytes")
	w := newWorld(r)
	w.boundaries()
	if os.Getenv("VERIF_PROPERTY") == "C11" {
		// C11 only needs the frame reader under hostile streams: boundaries + raw peers
		n := 0
		for r.TimeLeft() && n < r.Pick(400, 20000) {
			n++
			w.rawRandom()
		}
		r.Note("C11 mode: rounds=%d", n)
		return
	}
	// version × accepted-list × mode matrix, exhaustive over a small alphabet
	vers := []uint32{0, 12, 13}
	lists := [][]uint32{nil, {0}, {13}, {12, 13}, {0, 12, 13}}
	for _, ov := range vers {
		for _, iv := range vers {
			for _, ol := range lists {
				for _, il := range lists {
					for mode := 0; mode < 4; mode++ {
						if r.Quick() && (int(ov)+int(iv)+len(ol)+len(il)+mode+int(r.Seed))%3 != 0 {
							continue
						}
						oc := sideCfg{role: "out", verify: mode&1 == 1, acct: 0, lp: "pA", rp: "pB", ver: ov, compat: ol, client: "v1"}
						ic := sideCfg{role: "in", verify: mode&2 == 2, acct: 1, lp: "pB", rp: "pA", ver: iv, compat: il, client: "cli/2.0"}
						w.honestPair(oc, ic)
						r.Count("matrix")
					}
				}
			}
		}
	}
	w.gapMatrix()
	w.replays()
	w.poolSessions(true)
	w.instanceHistory(true)
	w.instanceHistory(true)
	rounds := 0
	for r.TimeLeft() && rounds < r.Pick(1200, 20000) {
		rounds++
		switch k := r.Intn(20); {
		case k < 4:
			oc, ic := w.randPair(r.Chance(75))
			if r.Chance(12) {
				// the two ends were given inconsistent transport ids (relayed connection)
				if r.Chance(50) {
					oc.rp = peerPool[r.Intn(len(peerPool))]
				} else {
					ic.rp = peerPool[r.Intn(len(peerPool))]
				}
			}
			if serviceable(oc) && serviceable(ic) && r.Chance(50) {
				// the public path: one secure service per side, built through app.App
				oc.service, ic.service = true, true
				oc.svc, ic.svc = svcMode{r.Chance(50)}, svcMode{r.Chance(50)}
				r.Count("pair.via-service")
			}
			w.honestPair(oc, ic)
		case k < 9:
			oc, ic := w.randPair(true)
			m := mutation{frame: 1 + r.Intn(4), kind: mutKinds[r.Intn(len(mutKinds))], stall: r.Chance(25)}
			if strings.HasPrefix(m.kind, "cred-") {
				m.frame = 1 + r.Intn(2) // the two credentials frames
				// the receiver of the damaged credentials should be a verifier most of the time
				if r.Chance(80) {
					oc.verify, ic.verify = true, true
				}
			}
			w.mutatedPair(oc, ic, m)
		case k < 11:
			oc, ic := w.randPair(true)
			side := "out"
			if r.Chance(50) {
				side = "in"
			}
			w.cancelledPair(oc, ic, 1+r.Intn(4), side)
		case k < 17:
			w.rawRandom()
		case k < 18:
			if r.Chance(50) {
				w.instanceHistory(r.Chance(70))
			} else {
				w.poolSessions(r.Chance(70))
			}
		case k < 19:
			w.poolConcurrent()
		default:
			if r.Chance(30) {
				w.replays()
			} else {
				w.rawRandom()
			}
		}
	}
	r.Note("rounds=%d", rounds)
}
