package handshake

import (
	"io"
	"math/rand/v2"
	"sync"
	"time"
)

// conn is the in-memory endpoint handed to the real handshake code. Inbound bytes are fed by the
// harness (feed / feedEOF) and handed to the reader in random-sized pieces (re-chunking); outbound
// bytes are recorded. Writes never block and succeed until the endpoint itself is closed: the
// stream is reliable, a peer going away is seen as EOF after everything it sent has been read.
type conn struct {
	mu      sync.Mutex
	cond    *sync.Cond
	in      []byte
	eof     bool // no more inbound bytes will come
	closed  bool // Close() was called by the code under test
	waiting bool // a Read is parked with nothing to deliver
	out     []byte
	taken   int // bytes of out already consumed by the harness
	rnd     *rand.Rand
	maxReq  int // largest single Read request seen
	reads   int
	chunky  bool
}

func newConn(seed uint64, chunky bool) *conn {
	c := &conn{rnd: rand.New(rand.NewPCG(seed, 77)), chunky: chunky}
	c.cond = sync.NewCond(&c.mu)
	return c
}

func (c *conn) Read(p []byte) (int, error) {
	c.mu.Lock()
	defer c.mu.Unlock()
	if len(p) > c.maxReq {
		c.maxReq = len(p)
	}
	c.reads++
	for len(c.in) == 0 && !c.eof && !c.closed {
		c.waiting = true
		c.cond.Broadcast()
		c.cond.Wait()
	}
	c.waiting = false
	if c.closed {
		return 0, io.ErrClosedPipe
	}
	if len(p) == 0 {
		return 0, nil
	}
	if len(c.in) == 0 {
		return 0, io.EOF
	}
	n := min(len(p), len(c.in))
	if c.chunky && n > 1 {
		switch c.rnd.IntN(3) {
		case 0:
			n = 1
		case 1:
			n = 1 + c.rnd.IntN(n)
		}
	}
	copy(p, c.in[:n])
	c.in = c.in[n:]
	return n, nil
}

func (c *conn) Write(p []byte) (int, error) {
	c.mu.Lock()
	defer c.mu.Unlock()
	if c.closed {
		return 0, io.ErrClosedPipe
	}
	c.out = append(c.out, p...)
	c.cond.Broadcast()
	return len(p), nil
}

func (c *conn) Close() error {
	c.mu.Lock()
	defer c.mu.Unlock()
	c.closed = true
	c.cond.Broadcast()
	return nil
}

func (c *conn) feed(b []byte) {
	c.mu.Lock()
	c.in = append(c.in, b...)
	c.cond.Broadcast()
	c.mu.Unlock()
}

func (c *conn) feedEOF() {
	c.mu.Lock()
	c.eof = true
	c.cond.Broadcast()
	c.mu.Unlock()
}

// take returns the bytes written since the last take.
func (c *conn) take() []byte {
	c.mu.Lock()
	defer c.mu.Unlock()
	b := append([]byte(nil), c.out[c.taken:]...)
	c.taken = len(c.out)
	return b
}

// untaken: bytes were written that the harness has not consumed yet
func (c *conn) untaken() bool {
	c.mu.Lock()
	defer c.mu.Unlock()
	return c.taken < len(c.out)
}

func (c *conn) written() []byte {
	c.mu.Lock()
	defer c.mu.Unlock()
	return append([]byte(nil), c.out...)
}

func (c *conn) isClosed() bool {
	c.mu.Lock()
	defer c.mu.Unlock()
	return c.closed
}

// parked reports that the code under test sits in Read with nothing to deliver.
func (c *conn) parked() bool {
	c.mu.Lock()
	defer c.mu.Unlock()
	return c.waiting && len(c.in) == 0 && !c.eof && !c.closed
}

// quiesce waits until the side using c is either finished (done closed) or parked in a Read.
// It returns false when neither happens within the (generous) guard: a hang.
func (c *conn) quiesce(done <-chan struct{}, guard time.Duration) bool {
	deadline := time.Now().Add(guard)
	for {
		select {
		case <-done:
			return true
		default:
		}
		if c.parked() {
			// re-check done: the side may have finished between the two tests
			return true
		}
		if time.Now().After(deadline) {
			return false
		}
		time.Sleep(20 * time.Microsecond)
	}
}
