package handshake

import (
	"fmt"
	"go/ast"
	"go/token"
	"os"
	"path/filepath"
	"strconv"
	"strings"

	"verifharness/internal/goast"
)

// extract regenerates Generated/HandshakeConsts.lean from net/secureservice/handshake/{handshake,
// credential}.go: frame constants, the size guard, the type whitelist of every readMsg call of the
// credential handshake and the set of pooled fields cleared by release().
func extract(repo, out string) error {
	g, err := goast.Parse(filepath.Join(repo, "net/secureservice/handshake/handshake.go"))
	if err != nil {
		return err
	}
	gc, err := goast.Parse(filepath.Join(repo, "net/secureservice/handshake/credential.go"))
	if err != nil {
		return err
	}
	ok := true
	consts := map[string]int{}
	var eval func(e ast.Expr) (int, bool)
	eval = func(e ast.Expr) (int, bool) {
		switch v := e.(type) {
		case *ast.BasicLit:
			if v.Kind == token.INT {
				n, err := strconv.ParseInt(v.Value, 0, 64)
				return int(n), err == nil
			}
		case *ast.ParenExpr:
			return eval(v.X)
		case *ast.CallExpr:
			if id, isID := v.Fun.(*ast.Ident); isID && (id.Name == "byte" || id.Name == "uint32" || id.Name == "int") && len(v.Args) == 1 {
				return eval(v.Args[0])
			}
		case *ast.BinaryExpr:
			a, ok1 := eval(v.X)
			b, ok2 := eval(v.Y)
			if ok1 && ok2 {
				switch v.Op {
				case token.MUL:
					return a * b, true
				case token.ADD:
					return a + b, true
				case token.SHL:
					return a << uint(b), true
				}
			}
		case *ast.Ident:
			n, has := consts[v.Name]
			return n, has
		}
		return 0, false
	}
	for _, d := range g.F.Decls {
		gd, isG := d.(*ast.GenDecl)
		if !isG || gd.Tok != token.CONST {
			continue
		}
		for _, sp := range gd.Specs {
			vs := sp.(*ast.ValueSpec)
			for i, n := range vs.Names {
				if i < len(vs.Values) {
					if v, good := eval(vs.Values[i]); good {
						consts[n.Name] = v
					}
				}
			}
		}
	}
	need := func(name string) int {
		v, has := consts[name]
		if !has {
			ok = false
		}
		return v
	}
	headerSize, tCred, tAck, tProto, limit := need("headerSize"), need("msgTypeCred"), need("msgTypeAck"), need("msgTypeProto"), need("sizeLimit")

	// readMsg: `if size > sizeLimit {` and `!slices.Contains(allowedTypes, tp)`
	sizeGuard := ""
	whitelist := false
	grow := ""
	if fd := g.Fn("handshake", "readMsg"); fd != nil {
		ast.Inspect(fd.Body, func(n ast.Node) bool {
			if is, isIf := n.(*ast.IfStmt); isIf {
				c := g.Str(is.Cond)
				if strings.Contains(c, "sizeLimit") {
					sizeGuard = c
				}
				if c == "!slices.Contains(allowedTypes, tp)" {
					whitelist = true
				}
			}
			if as, isAs := n.(*ast.AssignStmt); isAs && strings.Contains(g.Str(as), "slices.Grow(h.buf, int(size))") {
				grow = g.Str(as)
			}
			return true
		})
	} else {
		ok = false
	}
	strict := true
	switch sizeGuard {
	case "size > sizeLimit":
		strict = true
	case "size >= sizeLimit":
		strict = false
	default:
		ok = false
	}
	if !whitelist || grow != "h.buf = slices.Grow(h.buf, int(size))[:size]" {
		ok = false
	}

	// readMsg call sites of the credential handshake, in source order
	calls := func(fn string) [][]int {
		var res [][]int
		fd := gc.Fn("", fn)
		if fd == nil {
			ok = false
			return nil
		}
		ast.Inspect(fd.Body, func(n ast.Node) bool {
			ce, isC := n.(*ast.CallExpr)
			if !isC || gc.Str(ce.Fun) != "h.readMsg" {
				return true
			}
			var l []int
			for _, a := range ce.Args {
				v, good := eval(a)
				if !good {
					ok = false
				}
				l = append(l, v)
			}
			res = append(res, l)
			return true
		})
		return res
	}
	oc, ic := calls("outgoingHandshake"), calls("incomingHandshake")
	if len(oc) != 2 || len(ic) != 2 {
		ok = false
		for len(oc) < 2 {
			oc = append(oc, nil)
		}
		for len(ic) < 2 {
			ic = append(ic, nil)
		}
	}

	// release(): which pooled fields are cleared
	reset := map[string]bool{}
	if fd := g.Fn("handshake", "release"); fd != nil {
		for _, st := range fd.Body.List {
			s := g.Str(st)
			switch s {
			case "h.localAck.Error = 0":
				reset["localAck"] = true
			case "h.remoteAck.Error = 0":
				reset["remoteAck"] = true
			case "h.remoteCred.Type = 0":
				reset["credType"] = true
			case "h.remoteCred.Payload = h.remoteCred.Payload[:0]", "h.remoteCred.Payload = nil":
				reset["credPayload"] = true
			case "h.remoteCred.Version = 0":
				reset["credVersion"] = true
			case `h.remoteCred.ClientVersion = ""`:
				reset["credClient"] = true
			case "h.remoteCred.Reset()":
				reset["credType"], reset["credPayload"], reset["credVersion"], reset["credClient"] = true, true, true, true
			}
		}
	} else {
		ok = false
	}

	// error → wire code of every rejection path of the two checkers (net/secureservice/credential.go)
	enum := map[string]int{}
	if gpb, err := goast.Parse(filepath.Join(repo, "net/secureservice/handshake/handshakeproto/handshake.pb.go")); err == nil {
		for _, d := range gpb.F.Decls {
			gd, isG := d.(*ast.GenDecl)
			if !isG || gd.Tok != token.CONST {
				continue
			}
			for _, sp := range gd.Specs {
				vs := sp.(*ast.ValueSpec)
				if len(vs.Names) == 1 && len(vs.Values) == 1 && strings.HasPrefix(vs.Names[0].Name, "Error_") && gpb.Str(vs.Type) == "Error" {
					if v, good := eval(vs.Values[0]); good {
						enum[vs.Names[0].Name] = v
					}
				}
			}
		}
	} else {
		ok = false
	}
	// code of a HandshakeError composite literal: its `e:` field, 0 (Error_Null) when absent
	litCode := func(f *goast.File, e ast.Expr) (int, bool) {
		cl, isCL := e.(*ast.CompositeLit)
		if !isCL || !strings.HasSuffix(f.Str(cl.Type), "HandshakeError") {
			return 0, false
		}
		for _, el := range cl.Elts {
			if kv, isKV := el.(*ast.KeyValueExpr); isKV && f.Str(kv.Key) == "e" {
				v, has := enum[strings.TrimPrefix(f.Str(kv.Value), "handshakeproto.")]
				return v, has
			}
		}
		return 0, true
	}
	errVars := map[string]int{}
	for _, d := range g.F.Decls {
		gd, isG := d.(*ast.GenDecl)
		if !isG || gd.Tok != token.VAR {
			continue
		}
		for _, sp := range gd.Specs {
			vs := sp.(*ast.ValueSpec)
			if len(vs.Names) == 1 && len(vs.Values) == 1 && strings.HasPrefix(vs.Names[0].Name, "Err") {
				if c, good := litCode(g, vs.Values[0]); good {
					errVars[vs.Names[0].Name] = c
				}
			}
		}
	}
	checkerCodes := func(recv string) []int {
		gs, err := goast.Parse(filepath.Join(repo, "net/secureservice/credential.go"))
		if err != nil {
			ok = false
			return nil
		}
		fd := gs.Fn(recv, "CheckCredential")
		if fd == nil {
			ok = false
			return nil
		}
		var codes []int
		ast.Inspect(fd.Body, func(n ast.Node) bool {
			as, isAs := n.(*ast.AssignStmt)
			if !isAs || as.Tok != token.ASSIGN || len(as.Lhs) != 1 || gs.Str(as.Lhs[0]) != "err" || len(as.Rhs) != 1 {
				return true
			}
			if _, isCall := as.Rhs[0].(*ast.CallExpr); isCall {
				return true // `err = msg.UnmarshalVT(…)`: replaced by a handshake error in the branch that follows
			}
			rhs := gs.Str(as.Rhs[0])
			if c, has := errVars[strings.TrimPrefix(rhs, "handshake.")]; has && strings.HasPrefix(rhs, "handshake.Err") {
				codes = append(codes, c)
			} else if c, good := litCode(gs, as.Rhs[0]); good {
				codes = append(codes, c)
			} else {
				ok = false
				codes = append(codes, 0)
			}
			return true
		})
		return codes
	}
	nvCodes, pvCodes := checkerCodes("noVerifyChecker"), checkerCodes("peerSignVerifier")
	// the checkers carry configuration only: no caches, pools or other state surviving a call
	stateless := true
	if gs, err := goast.Parse(filepath.Join(repo, "net/secureservice/credential.go")); err == nil {
		want := map[string]string{"noVerifyChecker": "cred compatibleVersions", "peerSignVerifier": "protoVersion clientVersion account compatibleVersions"}
		seen := 0
		for _, d := range gs.F.Decls {
			gd, isG := d.(*ast.GenDecl)
			if !isG || gd.Tok != token.TYPE {
				continue
			}
			for _, sp := range gd.Specs {
				ts := sp.(*ast.TypeSpec)
				st, isSt := ts.Type.(*ast.StructType)
				w, known := want[ts.Name.Name]
				if !isSt || !known {
					continue
				}
				seen++
				var names []string
				for _, f := range st.Fields.List {
					for _, n := range f.Names {
						names = append(names, n.Name)
					}
					if len(f.Names) == 0 {
						names = append(names, "<embedded>")
					}
				}
				if strings.Join(names, " ") != w {
					stateless = false
				}
			}
		}
		if seen != 2 {
			stateless = false
		}
		// package-level mutable state used by the checkers would defeat the same purpose
		for _, d := range gs.F.Decls {
			if gd, isG := d.(*ast.GenDecl); isG && gd.Tok == token.VAR {
				stateless = false
			}
		}
	} else {
		stateless = false
	}
	// tryWriteErrAndClose: errors that are not HandshakeError are sent as Unexpected; ErrUnexpectedPayload closes silently
	tw := g.Fn("handshake", "tryWriteErrAndClose")
	if tw == nil || !goast.Contains(g, tw, "if err == ErrUnexpectedPayload {") || !goast.Contains(g, tw, "ackErr = handshakeproto.Error_Unexpected") || !goast.Contains(g, tw, "ackErr = he.e") {
		ok = false
	}

	list := func(l []int) string {
		s := make([]string, len(l))
		for i, v := range l {
			s[i] = strconv.Itoa(v)
		}
		return "[" + strings.Join(s, ", ") + "]"
	}
	var b strings.Builder
	b.WriteString("-- GENERATED by `verifharness extract` from /repo/net/secureservice/handshake/{handshake,credential}.go — do not edit\n")
	b.WriteString("namespace AnySync.Generated.Handshake\n")
	fmt.Fprintf(&b, "/-- every shape below was recognised by the extractor -/\ndef shapeOk : Bool := %s\n", goast.LeanBool(ok))
	fmt.Fprintf(&b, "def headerSize : Nat := %d\ndef msgTypeCred : Nat := %d\ndef msgTypeAck : Nat := %d\ndef msgTypeProto : Nat := %d\n", headerSize, tCred, tAck, tProto)
	fmt.Fprintf(&b, "/-- `sizeLimit` -/\ndef sizeLimit : Nat := %d\n", limit)
	fmt.Fprintf(&b, "/-- the guard is `size > sizeLimit` (true) or `size >= sizeLimit` (false) -/\ndef sizeGuardStrict : Bool := %s\n", goast.LeanBool(strict))
	fmt.Fprintf(&b, "/-- allowed types of the readMsg calls, in source order -/\ndef outRead1 : List Nat := %s\ndef outRead2 : List Nat := %s\ndef inRead1 : List Nat := %s\ndef inRead2 : List Nat := %s\n",
		list(oc[0]), list(oc[1]), list(ic[0]), list(ic[1]))
	for _, k := range []string{"localAck", "remoteAck", "credType", "credPayload", "credVersion", "credClient"} {
		fmt.Fprintf(&b, "/-- release() clears this pooled field -/\ndef releaseResets_%s : Bool := %s\n", k, goast.LeanBool(reset[k]))
	}
	fmt.Fprintf(&b, "/-- wire codes of the rejection paths of noVerifyChecker.CheckCredential / peerSignVerifier.CheckCredential, in source order -/\ndef noVerifyErrCodes : List Nat := %s\ndef verifierErrCodes : List Nat := %s\n", list(nvCodes), list(pvCodes))
	fmt.Fprintf(&b, "/-- noVerifyChecker / peerSignVerifier have exactly their configuration fields (no cache, pool or other state that survives a CheckCredential call), credential.go declares no package variable -/\ndef checkersStateless : Bool := %s\n", goast.LeanBool(stateless))
	fmt.Fprintf(&b, "def errUnexpectedCode : Nat := %d\ndef errUnexpectedPayloadCode : Nat := %d\n", enum["Error_Unexpected"], errVars["ErrUnexpectedPayload"])
	b.WriteString("end AnySync.Generated.Handshake\n")
	return os.WriteFile(filepath.Join(out, "HandshakeConsts.lean"), []byte(b.String()), 0o644)
}
