package handshake

import (
	"context"
	"fmt"
	"sync"

	"github.com/anyproto/any-sync/accountservice"
	"github.com/anyproto/any-sync/app"
	"github.com/anyproto/any-sync/commonspace/object/accountdata"
	"github.com/anyproto/any-sync/net/peer"
	"github.com/anyproto/any-sync/net/secureservice"
	hs "github.com/anyproto/any-sync/net/secureservice/handshake"
	"github.com/anyproto/any-sync/nodeconf"
)

// The public path: secureservice.SecureService built through app.App, HandshakeInbound /
// HandshakeOutbound, results read back from the returned context (net/peer/context.go).

type acctStub struct{ keys *accountdata.AccountKeys }

func (a *acctStub) Init(*app.App) error               { return nil }
func (a *acctStub) Name() string                      { return accountservice.CName }
func (a *acctStub) Account() *accountdata.AccountKeys { return a.keys }

type ncStub struct {
	nodeconf.Service
	mu    sync.Mutex
	types map[string][]nodeconf.NodeType
}

func (n *ncStub) set(id string, t []nodeconf.NodeType) {
	n.mu.Lock()
	defer n.mu.Unlock()
	if t == nil {
		delete(n.types, id)
	} else {
		n.types[id] = t
	}
}

func (n *ncStub) Init(*app.App) error         { return nil }
func (n *ncStub) Name() string                { return nodeconf.CName }
func (n *ncStub) Run(context.Context) error   { return nil }
func (n *ncStub) Close(context.Context) error { return nil }
func (n *ncStub) NodeTypes(nodeId string) []nodeconf.NodeType {
	n.mu.Lock()
	defer n.mu.Unlock()
	return n.types[nodeId]
}

type confStub struct{ c secureservice.Config }

func (c *confStub) Init(*app.App) error                    { return nil }
func (c *confStub) Name() string                           { return "config" }
func (c *confStub) GetSecureService() secureservice.Config { return c.c }

type svcMode struct {
	viaNodeconf bool // identity verification is switched on through nodeconf node types rather than ctx / config
}

// serviceable: the public path cannot express a side whose own version is outside its accepted list
// (Init refuses) nor an empty list (defaults apply).
func serviceable(c sideCfg) bool {
	// (an empty client string is replaced by app.VersionName()'s default)
	return len(c.compat) > 0 && contains(c.compat, c.ver) && c.client != ""
}

type liveService struct {
	svc secureservice.SecureService
	nc  *ncStub
}

// prepareService returns the handshake call to run on the side's goroutine. The secure service of a
// node is long-lived: one instance (built through app.App) per node configuration serves every
// connection of that node, as in a running process. Construction is synchronous
// (secureservice.ProtoVersion is a package variable read by Init).
func (w *world) prepareService(c sideCfg, s *sideRun, mode svcMode) func() (hs.Result, error) {
	a := w.accts[c.acct].keys
	ctx := s.ctx
	inboundVerify, inboundViaNC := c.role == "in" && c.verify, c.role == "in" && c.verify && mode.viaNodeconf
	key := fmt.Sprintf("%s|%d|%s|%d|%v|%s|%v|%v", c.role, c.acct, c.lp, c.ver, c.compat, c.client, inboundVerify, inboundViaNC)
	w.chkMu.Lock()
	ls, ok := w.services[key]
	if !ok {
		nc := &ncStub{types: map[string][]nodeconf.NodeType{}}
		conf := secureservice.Config{CompatibleVersions: c.compat}
		if inboundViaNC {
			nc.types[c.lp] = []nodeconf.NodeType{nodeconf.NodeTypeTree}
		} else if inboundVerify {
			conf.RequireClientAuth = true
		}
		secureservice.ProtoVersion = c.ver
		ap := new(app.App)
		ap.SetVersionName(c.client)
		svc := secureservice.New()
		ap.Register(&acctStub{keys: &accountdata.AccountKeys{PeerKey: a.PeerKey, SignKey: a.SignKey, PeerId: c.lp}}).
			Register(&confStub{c: conf}).Register(nc).Register(svc)
		if err := ap.Start(context.Background()); err != nil {
			w.chkMu.Unlock()
			w.r.Fatal("secure service does not start: " + err.Error())
		}
		ls = &liveService{svc: svc, nc: nc}
		w.services[key] = ls
		w.r.Count("service.new")
	} else {
		w.r.Count("service.reused")
	}
	w.chkMu.Unlock()
	if c.role == "out" && c.verify {
		if mode.viaNodeconf {
			ls.nc.set(c.rp, []nodeconf.NodeType{nodeconf.NodeTypeTree})
		} else {
			ls.nc.set(c.rp, nil)
			ctx = secureservice.CtxAllowAccountCheck(ctx)
		}
	} else if c.role == "out" {
		ls.nc.set(c.rp, nil)
	}
	return func() (hs.Result, error) { return w.callService(ls.svc, ctx, c, s) }
}

func (w *world) callService(svc secureservice.SecureService, ctx context.Context, c sideCfg, s *sideRun) (hs.Result, error) {
	var cctx context.Context
	var err error
	if c.role == "out" {
		cctx, err = svc.HandshakeOutbound(ctx, s.c, c.rp)
	} else {
		cctx, err = svc.HandshakeInbound(ctx, s.c, c.rp)
	}
	if err != nil {
		return hs.Result{}, err
	}
	var res hs.Result
	res.Identity, _ = peer.CtxIdentity(cctx)
	res.ProtoVersion, _ = peer.CtxProtoVersion(cctx)
	res.ClientVersion = peer.CtxPeerClientVersion(cctx)
	if pid, perr := peer.CtxPeerId(cctx); perr != nil || pid != c.rp {
		s.ctxPeerBad = fmt.Sprintf("context carries peer id %q, connection is with %q", pid, c.rp)
	}
	return res, nil
}
