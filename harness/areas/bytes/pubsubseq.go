package bytes

// The pub/sub service's stream handlers as a C11 entry point: a real pubsub.Service (node side:
// membership + relay fakes, its private stream pool real) serving inbound PubSubStreams on which a
// peer sends multi-message hostile sequences — subscribe / unsubscribe / publish for unknown,
// never-subscribed, closed or evicted spaces, empty and oversized topic lists, invalid patterns,
// oversized payloads, bad message ids, empty frames. After EVERY frame benign probes run on the
// same service under the hang detector (a fresh member stream subscribes, unsubscribes and closes;
// CloseSpace on an unrelated space): an engine that wedges or dies after a rejected frame violates
// "never hangs" just as much as one that hangs while handling it.

import (
	"context"
	"errors"
	"fmt"
	"io"
	"strings"
	"sync"
	"time"

	"storj.io/drpc"

	"github.com/anyproto/any-sync/app"
	"github.com/anyproto/any-sync/commonspace/object/accountdata"
	"github.com/anyproto/any-sync/commonspace/pubsub"
	"github.com/anyproto/any-sync/commonspace/pubsub/pubsubproto"
	"github.com/anyproto/any-sync/net/peer"
	"github.com/anyproto/any-sync/testutil/accounttest"
	"github.com/anyproto/any-sync/util/crypto"
)

type psStream struct {
	ctx    context.Context
	in     chan *pubsubproto.PubSubMessage
	idle   chan struct{}
	mu     sync.Mutex
	sent   int
	closed chan struct{}
	once   sync.Once
	done   chan struct{} // HandleStream returned
	pan    any
}

func newPsStream(ctx context.Context) *psStream {
	return &psStream{ctx: ctx, in: make(chan *pubsubproto.PubSubMessage), idle: make(chan struct{}), closed: make(chan struct{}), done: make(chan struct{})}
}

func (f *psStream) Context() context.Context { return f.ctx }
func (f *psStream) MsgSend(msg drpc.Message, _ drpc.Encoding) error {
	f.mu.Lock()
	f.sent++
	f.mu.Unlock()
	return nil
}
func (f *psStream) MsgRecv(msg drpc.Message, _ drpc.Encoding) error {
	select {
	case f.idle <- struct{}{}:
	case <-f.closed:
		return io.EOF
	case <-time.After(5 * guard):
		return errors.New("fake: nobody waits for idle")
	}
	m, ok := <-f.in
	if !ok {
		return io.EOF
	}
	b, err := m.MarshalVT()
	if err != nil {
		return err
	}
	return msg.(*pubsubproto.PubSubMessage).UnmarshalVT(b)
}
func (f *psStream) CloseSend() error { return nil }
func (f *psStream) Close() error {
	f.once.Do(func() { close(f.closed) })
	return nil
}

type psMembership struct {
	mu      sync.Mutex
	allowed map[string]bool // space|account
}

func (m *psMembership) CheckMember(_ context.Context, spaceId string, identity crypto.PubKey) error {
	m.mu.Lock()
	defer m.mu.Unlock()
	if m.allowed[spaceId+"|"+identity.Account()] {
		return nil
	}
	return errors.New("not a member")
}

type psRelay struct{}

func (psRelay) IsResponsible(string) bool          { return true }
func (psRelay) IsResponsibleNode(_, _ string) bool { return false }
func (psRelay) OtherResponsiblePeers(context.Context, string) ([]peer.Peer, error) {
	return nil, nil
}

type psWorld struct {
	w    *world
	svc  pubsub.Service
	app  *app.App
	mem  *psMembership
	accs []*accountdata.AccountKeys
	n    int
}

func (w *world) newPsWorld() *psWorld {
	p := &psWorld{w: w, mem: &psMembership{allowed: map[string]bool{}}, accs: []*accountdata.AccountKeys{w.keys, w.other}}
	for _, sp := range []string{"spA", "spB", "spProbe"} {
		p.mem.allowed[sp+"|"+w.keys.SignKey.GetPublic().Account()] = true
	}
	p.mem.allowed["spA|"+w.other.SignKey.GetPublic().Account()] = true
	p.svc = pubsub.New(pubsub.Deps{Membership: p.mem, Relay: psRelay{},
		Config: pubsub.Config{MaxPayloadSize: 64, MaxPatternsPerStream: 4, MaxPatternsPerSpace: 3, PublishRps: 1000, PublishBurst: 1000}})
	p.app = new(app.App)
	p.app.Register(accounttest.NewWithAcc(w.keys)).Register(p.svc)
	if err := p.app.Start(context.Background()); err != nil {
		w.r.Fatal("pubsub app: " + err.Error())
	}
	return p
}

// open starts HandleStream for a new inbound stream; false = the service did not start reading.
func (p *psWorld) open(acc *accountdata.AccountKeys, withIdentity bool) (*psStream, bool) {
	p.n++
	ctx := peer.CtxWithPeerId(context.Background(), fmt.Sprintf("peer%d", p.n))
	if withIdentity {
		ctx = peer.CtxWithIdentity(ctx, must(acc.SignKey.GetPublic().Marshall()))
	}
	s := newPsStream(ctx)
	go func() {
		defer close(s.done)
		defer func() {
			if r := recover(); r != nil {
				s.pan = r
			}
		}()
		_ = p.svc.HandleStream(s)
	}()
	return s, p.waitIdle(s, probeGuard)
}

func (p *psWorld) waitIdle(s *psStream, limit time.Duration) bool {
	select {
	case <-s.idle:
		return true
	case <-s.done:
		return true
	case <-time.After(limit):
		return false
	}
}

// push delivers one frame and waits until the service is back in MsgRecv (frame fully handled).
func (p *psWorld) push(s *psStream, m *pubsubproto.PubSubMessage, limit time.Duration) (ok bool) {
	select {
	case <-s.done:
		return true // stream already ended (the service closed it): nothing to deliver
	default:
	}
	select {
	case s.in <- m:
	case <-s.done:
		return true
	case <-time.After(limit):
		return false
	}
	return p.waitIdle(s, limit)
}

func (p *psWorld) closeStream(s *psStream, limit time.Duration) bool {
	select {
	case <-s.done:
		return true
	default:
	}
	close(s.in)
	select {
	case <-s.idle:
		select {
		case <-s.done:
			return true
		case <-time.After(limit):
			return false
		}
	case <-s.done:
		return true
	case <-time.After(limit):
		return false
	}
}

func subMsg(space string, topics []string) *pubsubproto.PubSubMessage {
	return &pubsubproto.PubSubMessage{Content: &pubsubproto.PubSubMessage_Subscribe{Subscribe: &pubsubproto.Subscribe{SpaceId: space, Topics: topics}}}
}
func unsubMsg(space string, topics []string) *pubsubproto.PubSubMessage {
	return &pubsubproto.PubSubMessage{Content: &pubsubproto.PubSubMessage_Unsubscribe{Unsubscribe: &pubsubproto.Unsubscribe{SpaceId: space, Topics: topics}}}
}

// probe: benign use of the service after a hostile frame. Returns what failed ("" = fine).
func (p *psWorld) probe() (what string, pan any) {
	s, ok := p.open(p.w.keys, true)
	if !ok {
		return "a new stream is not served", nil
	}
	if !p.push(s, subMsg("spProbe", []string{"probe/topic"}), probeGuard) {
		return "a valid subscribe of a member is not handled", s.pan
	}
	if !p.push(s, unsubMsg("spProbe", nil), probeGuard) {
		return "a valid unsubscribe is not handled", s.pan
	}
	if !p.closeStream(s, probeGuard) {
		return "closing a stream does not return", s.pan
	}
	done := make(chan any, 1)
	go func() {
		defer func() { done <- recover() }()
		p.svc.CloseSpace("spProbe")
	}()
	select {
	case pn := <-done:
		if pn != nil {
			return "CloseSpace panicked", pn
		}
	case <-time.After(probeGuard):
		return "CloseSpace does not return", nil
	}
	return "", s.pan
}

func (w *world) pubsubSequence(p *psWorld, scripted int) {
	r := w.r
	var trace []string
	spaces := []string{"spA", "spB", "spX", "", "sp/slash", "spNever"}
	goodTopics := [][]string{{"a/b"}, {"a/*"}, {"a/>"}, {"acc/chat/" + w.keys.SignKey.GetPublic().Account()}, {"a/b", "c/d"}}
	badTopics := [][]string{nil, {}, {""}, {"a//b"}, {">/a"}, {strings.Repeat("x", 300)}, {strings.Repeat("a/", 20) + "a"}, manyTopics(200), {"a/b", "a/b", "a/b"}}
	identities := func() *accountdata.AccountKeys { return p.accs[r.Intn(len(p.accs))] }

	type op struct {
		name string
		run  func(s *psStream) bool // false = the service did not come back within the guard
	}
	pubOp := func(space, topic string, idLen int, payload int, ident []byte) op {
		return op{fmt.Sprintf("publish %q %q id%d pl%d", space, short(topic), idLen, payload), func(s *psStream) bool {
			return p.push(s, &pubsubproto.PubSubMessage{Content: &pubsubproto.PubSubMessage_Publish{Publish: &pubsubproto.Publish{
				SpaceId: space, Topic: topic, MsgId: w.randBytes(idLen), Payload: make([]byte, payload), Identity: ident,
				Signature: []byte("sig"), TimestampMilli: time.Now().UnixMilli(), Relayed: r.Chance(20)}}}, probeGuard)
		}}
	}
	subOp := func(space string, t []string) op {
		return op{fmt.Sprintf("subscribe %q %d topics", space, len(t)), func(s *psStream) bool { return p.push(s, subMsg(space, t), probeGuard) }}
	}
	unsubOp := func(space string, t []string) op {
		return op{fmt.Sprintf("unsubscribe %q %d topics", space, len(t)), func(s *psStream) bool { return p.push(s, unsubMsg(space, t), probeGuard) }}
	}
	closeSpaceOp := func(space string) op {
		return op{fmt.Sprintf("CloseSpace %q", space), func(*psStream) bool {
			_, pan, hung := guardedFor(probeGuard, func() error { p.svc.CloseSpace(space); return nil })
			return pan == nil && !hung
		}}
	}
	evictOp := func(space string, a *accountdata.AccountKeys) op {
		return op{fmt.Sprintf("EvictMember %q", space), func(*psStream) bool {
			_, pan, hung := guardedFor(probeGuard, func() error { p.svc.EvictMember(space, a.SignKey.GetPublic()); return nil })
			return pan == nil && !hung
		}}
	}
	emptyOp := op{"empty frame", func(s *psStream) bool { return p.push(s, &pubsubproto.PubSubMessage{}, probeGuard) }}
	statusOp := op{"status frame", func(s *psStream) bool {
		return p.push(s, &pubsubproto.PubSubMessage{Content: &pubsubproto.PubSubMessage_Status{Status: &pubsubproto.Status{SpaceId: "spA", Topics: []string{"a/b"}}}}, probeGuard)
	}}

	var ops []op
	switch scripted {
	case 1: // interest in one space, withdrawal for a space nobody ever subscribed to
		ops = []op{subOp("spA", []string{"a/b"}), unsubOp("spB", nil)}
	case 2:
		ops = []op{subOp("spA", []string{"a/b"}), unsubOp("spNever", []string{"a/b"})}
	case 3: // withdrawn twice
		ops = []op{subOp("spA", []string{"a/b"}), subOp("spB", []string{"c/d"}), unsubOp("spA", nil), unsubOp("spA", nil)}
	case 4: // the space was closed / its member evicted while the stream keeps interest elsewhere
		ops = []op{subOp("spA", []string{"a/b"}), subOp("spB", []string{"c/d"}), closeSpaceOp("spA"), unsubOp("spA", []string{"a/b"})}
	case 5:
		ops = []op{subOp("spA", []string{"a/b"}), subOp("spB", []string{"c/d"}), evictOp("spA", w.keys), unsubOp("spA", nil), pubOp("spA", "a/b", 16, 8, must(w.keys.SignKey.GetPublic().Marshall()))}
	case 6: // nothing but withdrawals and publishes on a stream without any record
		ops = []op{unsubOp("spA", nil), pubOp("spX", "a/b", 16, 8, nil), unsubOp("", nil), emptyOp, statusOp}
	case 7: // oversized and empty lists
		ops = []op{subOp("spA", manyTopics(500)), subOp("spA", nil), unsubOp("spA", manyTopics(500)), subOp("spA", []string{"a/b"}), unsubOp("spA", []string{})}
	default:
		for i := 0; i < 3+r.Intn(6); i++ {
			sp := spaces[r.Intn(len(spaces))]
			tp := goodTopics[r.Intn(len(goodTopics))]
			if r.Chance(35) {
				tp = badTopics[r.Intn(len(badTopics))]
			}
			switch k := r.Intn(20); {
			case k < 6:
				ops = append(ops, subOp(sp, tp))
			case k < 12:
				ops = append(ops, unsubOp(sp, tp))
			case k < 15:
				id := must(identities().SignKey.GetPublic().Marshall())
				if r.Chance(25) {
					id = w.randBytes(r.Intn(40))
				}
				topic := "a/b"
				if len(tp) > 0 {
					topic = tp[0]
				}
				ops = append(ops, pubOp(sp, topic, []int{16, 16, 15, 0, 40}[r.Intn(5)], []int{8, 64, 65, 4096}[r.Intn(4)], id))
			case k < 17:
				ops = append(ops, closeSpaceOp(sp))
			case k < 18:
				ops = append(ops, evictOp(sp, identities()))
			case k < 19:
				ops = append(ops, emptyOp)
			default:
				ops = append(ops, statusOp)
			}
		}
	}
	s, ok := p.open(identities(), scripted != 0 || r.Chance(85))
	if !ok {
		w.hangs++
		w.r.Violate("C11", "", "pubsub.sequence.open.hang", "the pub/sub service does not serve a new inbound stream (engine wedged by an earlier sequence?)", []string{"open"})
		return
	}
	for _, o := range ops {
		trace = append(trace, o.name)
		if !o.run(s) {
			w.hangs++
			w.r.Violate("C11", "", "pubsub.sequence.frame.hang", fmt.Sprintf("frame %d of a multi-message sequence was not handled within the hang guard", len(trace)), append([]string{}, trace...))
			return
		}
		if s.pan != nil {
			w.r.Violate("C11", "", "pubsub.sequence.frame.panic", "stream handler panicked: "+firstLine(fmt.Sprint(s.pan)), append([]string{}, trace...))
			return
		}
		if what, pan := p.probe(); what != "" || pan != nil {
			trace = append(trace, "probe: "+what)
			w.hangs++
			desc := "after the last frame of this sequence a benign probe fails: " + what
			if pan != nil {
				desc += " (panic: " + firstLine(fmt.Sprint(pan)) + ")"
			}
			w.r.Violate("C11", "", "pubsub.sequence.probe.hang", desc, append([]string{}, trace...))
			return
		}
		w.r.Count("pubsub.seq.frame")
	}
	if !p.closeStream(s, probeGuard) {
		w.hangs++
		w.r.Violate("C11", "", "pubsub.sequence.close.hang", "closing the stream after the sequence does not return", append(trace, "close"))
		return
	}
	w.r.Case("pubsubseq "+strings.Join(trace, " ; "), true)
	w.r.Count(fmt.Sprintf("pubsub.seq.script%d", scripted))
}

func manyTopics(n int) []string {
	t := make([]string, n)
	for i := range t {
		t[i] = fmt.Sprintf("t/%d", i)
	}
	return t
}
