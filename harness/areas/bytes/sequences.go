package bytes

// Stateful hostile sequences (C11: "redundant or dangling parent references", "tree changes and sync
// messages", "ACL records"): a peer delivers SEVERAL messages to the same live object. State that
// survives between calls (wait lists, unattached buffers, rejected heads, pending records) is what
// single-input fuzzing cannot reach. Real ObjectTree over real any-store storage, real AclList;
// every call under recover() with the hang guard.

import (
	"context"
	"fmt"
	"os"
	"path/filepath"
	"sort"
	"strings"
	"time"

	anystore "github.com/anyproto/any-store"
	"google.golang.org/protobuf/encoding/protowire"

	"github.com/anyproto/any-sync/commonspace/headsync/headstorage"
	"github.com/anyproto/any-sync/commonspace/object/accountdata"
	"github.com/anyproto/any-sync/commonspace/object/acl/aclrecordproto"
	"github.com/anyproto/any-sync/commonspace/object/acl/list"
	"github.com/anyproto/any-sync/commonspace/object/acl/recordverifier"
	"github.com/anyproto/any-sync/commonspace/object/keyvalue/keyvaluestorage"
	"github.com/anyproto/any-sync/commonspace/object/keyvalue/keyvaluestorage/innerstorage"
	"github.com/anyproto/any-sync/commonspace/object/tree/objecttree"
	"github.com/anyproto/any-sync/commonspace/object/tree/treechangeproto"
	"github.com/anyproto/any-sync/commonspace/spacesyncproto"
	"github.com/anyproto/any-sync/consensus/consensusproto"
	"github.com/anyproto/any-sync/util/cidutil"
	"github.com/anyproto/any-sync/util/crypto"
)

// probeGuard: how long a benign probe operation may take before the object counts as wedged
const probeGuard = 10 * time.Second

// guarded runs one step of a sequence; returns panic value / hang flag.
func guarded(f func() error) (err error, pan any, hung bool) { return guardedFor(guard, f) }

func guardedFor(limit time.Duration, f func() error) (err error, pan any, hung bool) {
	type res struct {
		err error
		pan any
	}
	ch := make(chan res, 1)
	go func() {
		var r res
		defer func() {
			if p := recover(); p != nil {
				r.pan = p
			}
			ch <- r
		}()
		r.err = f()
	}()
	select {
	case r := <-ch:
		return r.err, r.pan, false
	case <-time.After(limit):
		return nil, nil, true
	}
}

// probes: "never panics, never hangs" is about the process AFTER the hostile input too. After every
// step of a sequence — accepted or rejected — benign operations are run on the same object under the
// hang detector: take its lock and iterate it, add a perfectly valid change, write locally.
func (w *world) treeProbes(stream string, tr objecttree.ObjectTree, trace *[]string, validAdd func() error, local func() error) (stop bool) {
	_, pan, hung := guardedFor(probeGuard, func() error {
		tr.Lock()
		defer tr.Unlock()
		n := 0
		_ = tr.Heads()
		return tr.IterateRoot(func(ch *objecttree.Change, decrypted []byte) (any, error) { return nil, nil },
			func(ch *objecttree.Change) bool { n++; return n < 10000 })
	})
	if pan != nil || hung {
		*trace = append(*trace, "probe: lock + iterate")
	}
	if w.seqVerdict(stream+".probe-iterate", *trace, pan, hung) {
		return true
	}
	if validAdd != nil {
		err, pan, hung := guardedFor(probeGuard, validAdd)
		if pan != nil || hung {
			*trace = append(*trace, "probe: add a valid change")
		}
		if w.seqVerdict(stream+".probe-valid-add", *trace, pan, hung) {
			return true
		}
		w.r.Count(stream + ".probe-valid-add." + cls(err))
		if err != nil {
			w.r.Count(stream + ".probe-valid-add.err:" + firstLine(err.Error()))
		}
	}
	if local != nil {
		err, pan, hung := guardedFor(probeGuard, local)
		if pan != nil || hung {
			*trace = append(*trace, "probe: local AddContent")
		}
		if w.seqVerdict(stream+".probe-local", *trace, pan, hung) {
			return true
		}
		w.r.Count(stream + ".probe-local." + cls(err))
	}
	return false
}

// ---------------------------------------------------------------------------------------------
// tree

type mockChange struct {
	id       string
	prev     []string
	snapshot string
	isSnap   bool
	data     string
	kind     string // honest | dangling | self | cycle | bad-snapshot | no-parent | dup-parent | redundant | dup-id
}

func (m mockChange) String() string {
	s := ""
	if m.isSnap {
		s = "S"
	}
	return fmt.Sprintf("%s%s<%s|%s>", m.id, s, strings.Join(m.prev, ","), m.snapshot)
}

type treeFixture struct {
	w      *world
	db     anystore.DB
	dir    string
	cc     *objecttree.MockChangeCreator
	acl    list.AclList
	treeNo int
	rootId string // of the tree the current mock sequence runs on
}

func (w *world) newTreeFixture() *treeFixture {
	ctx := context.Background()
	dir := filepath.Join(w.tmp, fmt.Sprintf("seq%d", w.r.Intn(1<<30)))
	db, err := anystore.Open(ctx, dir, nil)
	if err != nil {
		w.r.Fatal("any-store: " + err.Error())
	}
	acl, err := list.NewInMemoryDerivedAcl("s", w.keys)
	if err != nil {
		w.r.Fatal("acl: " + err.Error())
	}
	return &treeFixture{w: w, db: db, dir: dir, acl: acl, cc: objecttree.NewMockChangeCreator(func() anystore.DB { return db })}
}

func (f *treeFixture) close() {
	f.db.Close()
	os.RemoveAll(f.dir)
}

// genDag: an honest DAG over the root plus hostile members.
func (w *world) genDag(rootId string, n int) []mockChange {
	r := w.r
	var out []mockChange
	ids := []string{rootId}                     // deliverable ancestors
	snapOf := map[string]string{rootId: rootId} // id -> snapshot base a child should cite
	heads := []string{rootId}
	for i := 1; i <= n; i++ {
		id := fmt.Sprintf("c%02d", i)
		c := mockChange{id: id, kind: "honest"}
		// parents: usually all current heads (honest), sometimes an older single change (concurrent branch)
		if r.Chance(70) {
			c.prev = append([]string{}, heads...)
		} else {
			c.prev = []string{ids[r.Intn(len(ids))]}
		}
		c.snapshot = snapOf[c.prev[0]]
		if len(c.prev) == 1 && r.Chance(15) {
			c.isSnap = true
		}
		// hostile variants
		switch k := r.Intn(100); {
		case k < 8:
			c.kind, c.prev = "dangling", append(c.prev, fmt.Sprintf("ghost%d", r.Intn(3)))
		case k < 11:
			c.kind, c.prev = "self", []string{id}
		case k < 14 && i > 1:
			// two-cycle with the previous generated change
			prevC := &out[len(out)-1]
			c.kind, c.prev = "cycle", []string{prevC.id}
			prevC.prev, prevC.kind = append(prevC.prev, id), "cycle"
		case k < 19:
			c.kind = "bad-snapshot"
			c.snapshot = []string{ids[r.Intn(len(ids))], "nosuch", "", id}[r.Intn(4)]
		case k < 21:
			c.kind, c.prev = "no-parent", nil
		case k < 25:
			c.kind, c.prev = "dup-parent", append(c.prev, c.prev[0])
		case k < 29 && len(ids) > 2:
			// redundant reference: a parent together with one of the older changes
			c.kind, c.prev = "redundant", append(c.prev, ids[r.Intn(len(ids))])
		}
		out = append(out, c)
		if c.kind == "honest" || c.kind == "dup-parent" || c.kind == "redundant" {
			ids = append(ids, id)
			if c.isSnap {
				snapOf[id] = id
			} else {
				snapOf[id] = c.snapshot
			}
			// new heads: remove parents, add id
			var nh []string
			for _, h := range heads {
				keep := true
				for _, p := range c.prev {
					if p == h {
						keep = false
					}
				}
				if keep {
					nh = append(nh, h)
				}
			}
			heads = append(nh, id)
		}
	}
	// a second version of some id (same id, other content)
	if r.Chance(40) && len(out) > 1 {
		c := out[r.Intn(len(out))]
		c.kind, c.data = "dup-id", "other"
		if r.Chance(50) && len(ids) > 1 {
			c.prev = []string{ids[r.Intn(len(ids))]}
		}
		out = append(out, c)
	}
	return out
}

// qual makes a mock id unique per tree (the change store is shared by all trees of the database)
func (f *treeFixture) qual(id string) string {
	if id == "" || id == f.rootId || strings.HasPrefix(id, f.rootId+".") {
		return id
	}
	return f.rootId + "." + id
}

func (f *treeFixture) raw(aclHead string, c mockChange) *treechangeproto.RawTreeChangeWithId {
	var data []byte
	if c.data != "" {
		data = []byte(c.data)
	}
	prev := make([]string, len(c.prev))
	for i, p := range c.prev {
		prev[i] = f.qual(p)
	}
	return f.cc.CreateRawWithData(f.qual(c.id), aclHead, f.qual(c.snapshot), c.isSnap, data, prev...)
}

// treeSequence: one tree, several AddRawChanges calls in a hostile schedule.
func (w *world) treeSequence(f *treeFixture, scripted int, viaHandler bool) {
	r := w.r
	ctx := context.Background()
	f.treeNo++
	rootId := fmt.Sprintf("t%d", f.treeNo)
	f.rootId = rootId
	aclHead := f.acl.Head().Id
	root := f.cc.CreateRoot(rootId, aclHead)
	st, err := objecttree.VerifCreateStorage(ctx, root, f.db)
	if err != nil {
		w.r.Fatal("tree storage: " + err.Error())
	}
	tr, err := objecttree.VerifBuildTree(st, f.acl, nil)
	if err != nil {
		w.r.Fatal("tree build: " + err.Error())
	}

	var calls [][]mockChange
	switch scripted {
	case 1: // child first (parent withheld), later the parent alone
		a := mockChange{id: "c01", prev: []string{rootId}, snapshot: rootId}
		b := mockChange{id: "c02", prev: []string{"c01"}, snapshot: rootId}
		calls = [][]mockChange{{b}, {a}, {b}}
	case 2: // grandchild, child, parent in three calls, then everything again
		a := mockChange{id: "c01", prev: []string{rootId}, snapshot: rootId}
		b := mockChange{id: "c02", prev: []string{"c01"}, snapshot: rootId}
		c := mockChange{id: "c03", prev: []string{"c02"}, snapshot: rootId}
		calls = [][]mockChange{{c}, {b}, {a}, {a, b, c}}
	case 3: // two children waiting for the same withheld parent, in separate calls; parent with an unrelated change
		a := mockChange{id: "c01", prev: []string{rootId}, snapshot: rootId}
		b := mockChange{id: "c02", prev: []string{"c01"}, snapshot: rootId}
		c := mockChange{id: "c03", prev: []string{"c01"}, snapshot: rootId}
		d := mockChange{id: "c04", prev: []string{rootId}, snapshot: rootId}
		calls = [][]mockChange{{b}, {c}, {d, a}, {c, b}}
	case 4: // snapshot arrives, tree reduces, then changes below the snapshot and stale waiters are re-delivered
		a := mockChange{id: "c01", prev: []string{rootId}, snapshot: rootId}
		s := mockChange{id: "c02", prev: []string{"c01"}, snapshot: rootId, isSnap: true}
		b := mockChange{id: "c03", prev: []string{"c02"}, snapshot: "c02"}
		old := mockChange{id: "c04", prev: []string{"c01"}, snapshot: rootId}
		calls = [][]mockChange{{b}, {a, s}, {b}, {old}, {a}, {s}}
	case 5: // self parent and two-cycle across calls, then honest continuation
		x := mockChange{id: "c01", prev: []string{"c01"}, snapshot: rootId}
		y := mockChange{id: "c02", prev: []string{"c03"}, snapshot: rootId}
		z := mockChange{id: "c03", prev: []string{"c02"}, snapshot: rootId}
		h := mockChange{id: "c04", prev: []string{rootId}, snapshot: rootId}
		calls = [][]mockChange{{x}, {y}, {z}, {h}, {x, y, z}}
	case 7, 8: // one honest change, then (below) a full-sync request whose snapshot path has nothing in common with ours
		a := mockChange{id: "c01", prev: []string{rootId}, snapshot: rootId}
		b := mockChange{id: "c02", prev: []string{"c01"}, snapshot: rootId}
		calls = [][]mockChange{{a}, {b}}
	case 6: // snapshot id that is not a snapshot / unknown, waiting child, then the parent
		a := mockChange{id: "c01", prev: []string{rootId}, snapshot: rootId}
		b := mockChange{id: "c02", prev: []string{"c01"}, snapshot: "c01"}
		c := mockChange{id: "c03", prev: []string{"c01"}, snapshot: "nosuch"}
		calls = [][]mockChange{{b}, {c}, {a}, {b, c}}
	default:
		dag := w.genDag(rootId, 3+r.Intn(9))
		// schedule: shuffled, cut into 1..5 calls, with re-deliveries
		perm := r.Perm(len(dag))
		k := 1 + r.Intn(min(5, len(dag)))
		calls = make([][]mockChange, k)
		for i, p := range perm {
			j := i * k / len(perm)
			if r.Chance(35) {
				j = r.Intn(k)
			}
			calls[j] = append(calls[j], dag[p])
		}
		for i := 0; i < 1+r.Intn(3); i++ { // re-delivery of an earlier batch / a single earlier change
			src := calls[r.Intn(len(calls))]
			if len(src) == 0 {
				continue
			}
			if r.Chance(50) {
				calls = append(calls, src)
			} else {
				calls = append(calls, []mockChange{src[r.Intn(len(src))]})
			}
		}
		if r.Chance(30) { // in causal order at the end: everything deliverable finally arrives
			all := append([]mockChange{}, dag...)
			sort.Slice(all, func(i, j int) bool { return all[i].id < all[j].id })
			calls = append(calls, all)
		}
	}

	var trace []string
	probeNo := 0
	if viaHandler {
		trace = append(trace, "via HandleHeadUpdate")
		w.r.Count("tree.seq.via-handler")
	}
	for ci, batch := range calls {
		if len(batch) == 0 {
			continue
		}
		var raws []*treechangeproto.RawTreeChangeWithId
		var names []string
		for _, c := range batch {
			raws = append(raws, f.raw(aclHead, c))
			names = append(names, c.String())
			w.r.Count("tree.seq.member." + kindOr(c.kind))
		}
		heads := []string{f.qual(batch[len(batch)-1].id)}
		if r.Chance(20) {
			heads = append(heads, "unknown-head")
		}
		step := fmt.Sprintf("add[%s] heads=%s", strings.Join(names, " "), strings.Join(heads, ","))
		trace = append(trace, step)
		// sometimes the tree is rebuilt from storage between calls (restart of the receiving side)
		if ci > 0 && r.Chance(12) {
			trace = append(trace, "reopen")
			_, pan, hung := guarded(func() error {
				st2, err := objecttree.VerifOpenStorage(ctx, rootId, f.db)
				if err != nil {
					return err
				}
				t2, err := objecttree.VerifBuildTree(st2, f.acl, nil)
				if err == nil {
					tr = t2
				}
				return err
			})
			if w.seqVerdict("tree.sequence.reopen", trace, pan, hung) {
				return
			}
		}
		var err error
		var pan any
		var hung bool
		if viaHandler {
			// the message as it comes off the wire, through the real sync handler (which locks the tree)
			b := newHeadUpdater(tr, rootId, root).encode(heads, raws, nil)
			if r.Chance(10) {
				b = w.mutateProto(b, 0)
				trace[len(trace)-1] += " (message damaged)"
			}
			err, pan, hung = guarded(func() error { return newHeadUpdater(tr, rootId, root).deliver(b) })
		} else {
			err, pan, hung = guarded(func() error {
				tr.Lock()
				defer tr.Unlock()
				_, err := tr.AddRawChanges(ctx, objecttree.RawChangesPayload{NewHeads: heads, RawChanges: raws})
				return err
			})
		}
		if w.seqVerdict("tree.sequence.add", trace, pan, hung) {
			return
		}
		w.r.Count("tree.seq.add." + cls(err))
		// hostile full-sync requests in between (the peer asks instead of telling)
		if scripted == 7 || scripted == 8 {
			// rejected (or answered) request, then the probes below
			if w.hostileRequestKind("tree.sequence", tr, rootId, root, &trace, scripted-7, 0) {
				return
			}
		} else if r.Chance(35) {
			if w.hostileRequest("tree.sequence", tr, rootId, root, &trace) {
				return
			}
		}
		// benign probes after every step
		probeNo++
		pid := fmt.Sprintf("p%02d", probeNo)
		var validAdd func() error
		if r.Chance(50) {
			validAdd = func() error {
				tr.Lock()
				defer tr.Unlock()
				c := mockChange{id: pid, prev: append([]string{}, tr.Heads()...), snapshot: tr.Root().Id}
				_, err := tr.AddRawChanges(ctx, objecttree.RawChangesPayload{NewHeads: []string{f.qual(pid)}, RawChanges: []*treechangeproto.RawTreeChangeWithId{f.raw(aclHead, c)}})
				return err
			}
		}
		if w.treeProbes("tree.sequence", tr, &trace, validAdd, nil) {
			return
		}
	}
	w.r.Case("treeseq "+strings.Join(trace, " ; "), true)
	w.r.Count(fmt.Sprintf("tree.seq.script%d", scripted))
}

func kindOr(k string) string {
	if k == "" {
		return "scripted"
	}
	return k
}

// hostileRequest: a full-sync REQUEST through the real sync handler (HandleStreamRequest): heads and
// snapshot paths the responder knows nothing about, probe flag, damaged encodings. Rejection with an
// error is fine; the probes that follow show whether the tree is still usable.
func (w *world) hostileRequest(stream string, tr objecttree.ObjectTree, treeId string, root *treechangeproto.RawTreeChangeWithId, trace *[]string) (stop bool) {
	return w.hostileRequestKind(stream, tr, treeId, root, trace, -1, -1)
}

// hostileRequestKind: headsKind / pathKind < 0 = random
func (w *world) hostileRequestKind(stream string, tr objecttree.ObjectTree, treeId string, root *treechangeproto.RawTreeChangeWithId, trace *[]string, headsKind, pathKind int) (stop bool) {
	r := w.r
	var heads, path []string
	if headsKind < 0 {
		headsKind = r.Intn(5)
	}
	if pathKind < 0 {
		pathKind = r.Intn(6)
	}
	switch headsKind {
	case 0:
		heads = append(heads, tr.Heads()...)
	case 1:
		heads = []string{"unknown-head"}
	case 2:
		heads = append(append(heads, tr.Heads()...), "unknown-head")
	}
	switch pathKind {
	case 0:
		path = []string{"nosuch"} // nothing in common with ours
	case 1:
		path = []string{"x", "y", "z"}
	case 2:
		path = []string{treeId}
	case 3:
		path = []string{"nosuch", treeId}
	case 4:
		path = []string{""}
	}
	req := &treechangeproto.TreeFullSyncRequest{Heads: heads, SnapshotPath: path, Probe: r.Chance(15) && headsKind+pathKind > 0}
	b, _ := treechangeproto.WrapFullRequest(req, root).MarshalVT()
	step := fmt.Sprintf("request heads=%s path=%s probe=%v", strings.Join(heads, ","), strings.Join(path, ","), req.Probe)
	if r.Chance(10) && headsKind+pathKind > 0 {
		b = w.mutateProto(b, 0)
		step += " (message damaged)"
	}
	*trace = append(*trace, step)
	err, pan, hung := guardedFor(probeGuard, func() error { return newHeadUpdater(tr, treeId, root).request(b) })
	w.r.Count(stream + ".request." + cls(err))
	return w.seqVerdict(stream+".request", *trace, pan, hung)
}

// seqVerdict records a panic / hang of a sequence step; true = stop the sequence.
func (w *world) seqVerdict(stream string, trace []string, pan any, hung bool) bool {
	switch {
	case pan != nil:
		w.r.Violate("C11", "", stream+".panic", fmt.Sprintf("panic at step %d of a multi-message sequence: %s", len(trace), firstLine(fmt.Sprint(pan))), append([]string{}, trace...))
		w.r.Count(stream + ".panic")
		return true
	case hung:
		w.hangs++
		w.r.Violate("C11", "", stream+".hang", fmt.Sprintf("no return within the hang guard at step %d of a multi-message sequence (the object is wedged)", len(trace)), append([]string{}, trace...))
		return true
	}
	return false
}

// ---------------------------------------------------------------------------------------------
// ACL records

// aclSequence: an owner produces a valid chain of records; a second replica of the same list gets
// them in a hostile schedule: out of order, duplicated, after rejected ones, with damaged copies.
func (w *world) aclSequence() {
	r := w.r
	author, err := list.NewInMemoryDerivedAcl("seqspace", w.keys)
	if err != nil {
		w.r.Fatal("acl: " + err.Error())
	}
	// the victim: a second replica built from the author's root record, validating in full
	vst, err := list.NewInMemoryStorage(author.Id(), []*consensusproto.RawRecordWithId{author.Root()})
	if err != nil {
		w.r.Fatal("acl storage: " + err.Error())
	}
	verifier := recordverifier.NewValidateFull()
	victim, err := list.BuildAclListWithIdentity(w.keys, vst, verifier)
	if err != nil {
		w.r.Fatal("acl victim: " + err.Error())
	}
	wrap := func(raw *consensusproto.RawRecord) *consensusproto.RawRecordWithId {
		b, _ := raw.MarshalVT()
		id, _ := cidutil.NewCidFromBytes(b)
		return &consensusproto.RawRecordWithId{Payload: b, Id: id}
	}
	var chain []*consensusproto.RawRecordWithId
	n := 2 + r.Intn(5)
	for i := 0; i < n; i++ {
		kind := r.Intn(4)
		_, pan, hung := guarded(func() error {
			author.Lock()
			defer author.Unlock()
			var raw *consensusproto.RawRecord
			var err error
			switch kind {
			case 0:
				var res list.InviteResult
				res, err = author.RecordBuilder().BuildInvite()
				raw = res.InviteRec
			case 1:
				var res list.InviteResult
				res, err = author.RecordBuilder().BuildInviteAnyone(list.AclPermissionsReader)
				raw = res.InviteRec
			case 2:
				raw, err = author.RecordBuilder().BuildSpaceOptionsChange(&aclrecordproto.AclSpaceOptions{})
			default:
				k, _, _ := crypto.GenerateRandomEd25519KeyPair()
				raw, err = author.RecordBuilder().BuildReadKeyChange(list.ReadKeyChangePayload{MetadataKey: k, ReadKey: crypto.NewAES()})
			}
			if err != nil || raw == nil {
				w.r.Count("acl.seq.build-skip")
				return err
			}
			rec := wrap(raw)
			if err = author.AddRawRecord(rec); err != nil {
				w.r.Count("acl.seq.build-rejected")
				return err
			}
			chain = append(chain, rec)
			return nil
		})
		if pan != nil || hung {
			// building honest records is not the subject here
			w.r.Count("acl.seq.build-panic")
			return
		}
	}
	if len(chain) == 0 {
		w.r.Count("acl.seq.empty")
		return
	}
	// hostile schedule over indexes of the chain
	type step struct {
		idx    int
		damage string
	}
	var steps []step
	perm := r.Perm(len(chain))
	for _, p := range perm {
		steps = append(steps, step{idx: p})
		if r.Chance(30) {
			steps = append(steps, step{idx: p}) // duplicate right away
		}
		if r.Chance(25) {
			steps = append(steps, step{idx: p, damage: []string{"truncate", "mutate", "wrong-id", "empty"}[r.Intn(4)]})
		}
	}
	for i := range chain { // finally in order (records after rejected ones must still be handled)
		steps = append(steps, step{idx: i})
	}
	if r.Chance(50) {
		steps = append(steps, step{idx: r.Intn(len(chain))}) // and a late duplicate
	}
	var trace []string
	for _, s := range steps {
		rec := chain[s.idx]
		switch s.damage {
		case "truncate":
			rec = &consensusproto.RawRecordWithId{Payload: rec.Payload[:r.Intn(len(rec.Payload))], Id: rec.Id}
		case "mutate":
			rec = &consensusproto.RawRecordWithId{Payload: w.mutateProto(rec.Payload, 0), Id: rec.Id}
		case "wrong-id":
			rec = &consensusproto.RawRecordWithId{Payload: rec.Payload, Id: chain[r.Intn(len(chain))].Id + "x"}
		case "empty":
			rec = &consensusproto.RawRecordWithId{Id: rec.Id}
		}
		trace = append(trace, fmt.Sprintf("rec%d%s", s.idx, map[bool]string{true: "/" + s.damage, false: ""}[s.damage != ""]))
		batch := r.Chance(20)
		err, pan, hung := guarded(func() error {
			victim.Lock()
			defer victim.Unlock()
			if batch {
				return victim.AddRawRecords([]*consensusproto.RawRecordWithId{rec, chain[r.Intn(len(chain))]})
			}
			return victim.AddRawRecord(rec)
		})
		if w.seqVerdict("acl.sequence.add", trace, pan, hung) {
			return
		}
		w.r.Count("acl.seq.add." + cls(err))
		_, pan, hung = guarded(func() error {
			victim.RLock()
			defer victim.RUnlock()
			_ = victim.AclState().CurrentAccounts()
			_ = victim.Head()
			return nil
		})
		if w.seqVerdict("acl.sequence.read", trace, pan, hung) {
			return
		}
	}
	w.r.Case("aclseq "+strings.Join(trace, " "), true)
	w.r.Count("acl.seq.done")
}

// ---------------------------------------------------------------------------------------------
// key-value batches

type noBroadcast struct{}

func (noBroadcast) Broadcast(context.Context, string, ...innerstorage.KeyValue) error { return nil }

// kvSequence: one key-value storage, several SetRaw batches from a peer: valid entries, re-labelled
// envelopes, duplicates across batches, stale timestamps, entries citing unknown ACL heads, damaged
// copies, empty and nil-field messages.
func (w *world) kvSequence(f *treeFixture) {
	r := w.r
	ctx := context.Background()
	f.treeNo++
	heads, err := headstorage.New(ctx, f.db)
	if err != nil {
		w.r.Fatal("headstorage: " + err.Error())
	}
	st, err := keyvaluestorage.New(ctx, fmt.Sprintf("kv%d", f.treeNo), f.db, heads, w.keys, noBroadcast{}, f.acl, keyvaluestorage.NoOpIndexer{})
	if err != nil {
		w.r.Fatal("kv storage: " + err.Error())
	}
	if err = st.Prepare(); err != nil {
		w.r.Fatal("kv prepare: " + err.Error())
	}
	mk := func(keys *accountdata.AccountKeys, key string, ts int64, aclHead string, value []byte) *spacesyncproto.StoreKeyValue {
		inner := &spacesyncproto.StoreKeyInner{Peer: must(keys.PeerKey.GetPublic().Marshall()), Identity: must(keys.SignKey.GetPublic().Marshall()),
			Value: value, TimestampMicro: ts, AclHeadId: aclHead, Key: key}
		b := must(inner.MarshalVT())
		return &spacesyncproto.StoreKeyValue{KeyPeerId: key + "-" + keys.PeerId, Value: b,
			IdentitySignature: must(keys.SignKey.Sign(b)), PeerSignature: must(keys.PeerKey.Sign(b))}
	}
	// a pool of entries; values are encrypted with the current read key the way Set does, or garbage
	readKey, _ := f.acl.AclState().CurrentReadKey()
	encv := func(s string) []byte {
		if readKey == nil || r.Chance(20) {
			return []byte(s)
		}
		b, _ := readKey.Encrypt([]byte(s))
		return b
	}
	var pool []*spacesyncproto.StoreKeyValue
	for i := 0; i < 3+r.Intn(5); i++ {
		keys := w.keys
		if r.Chance(30) {
			keys = w.other // an account the ACL does not know
		}
		aclHead := f.acl.Head().Id
		if r.Chance(15) {
			aclHead = "nosuchrecord"
		}
		kv := mk(keys, fmt.Sprintf("k%d", r.Intn(3)), int64(1+r.Intn(5)), aclHead, encv(fmt.Sprintf("v%d", i)))
		switch r.Intn(10) {
		case 0:
			kv.KeyPeerId = "other-slot" // re-labelled envelope
		case 1:
			kv.PeerSignature = nil
		case 2:
			kv.Value = w.mutateProto(kv.Value, 0)
		case 3:
			kv.Value = nil
		}
		pool = append(pool, kv)
	}
	var trace []string
	for call := 0; call < 2+r.Intn(4); call++ {
		var batch []*spacesyncproto.StoreKeyValue
		var names []string
		for i := 0; i < 1+r.Intn(4); i++ {
			k := r.Intn(len(pool))
			batch = append(batch, pool[k])
			names = append(names, fmt.Sprint(k))
		}
		if r.Chance(10) {
			batch = append(batch, &spacesyncproto.StoreKeyValue{})
			names = append(names, "empty")
		}
		trace = append(trace, "setraw["+strings.Join(names, ",")+"]")
		err, pan, hung := guarded(func() error { return st.SetRaw(ctx, batch...) })
		if w.seqVerdict("kv.sequence.setraw", trace, pan, hung) {
			return
		}
		w.r.Count("kv.seq.setraw." + cls(err))
		_, pan, hung = guarded(func() error {
			return st.Iterate(ctx, func(d keyvaluestorage.Decryptor, key string, values []innerstorage.KeyValue) (bool, error) {
				for _, v := range values {
					_, _ = d(v)
				}
				return true, nil
			})
		})
		if w.seqVerdict("kv.sequence.iterate", trace, pan, hung) {
			return
		}
	}
	w.r.Case("kvseq "+strings.Join(trace, " "), true)
	w.r.Count("kv.seq.done")
}

// ---------------------------------------------------------------------------------------------
// ACL: harness-SIGNED hostile records on a non-validating client list

// signRecord wraps arbitrary AclData into a record that passes every signature check: signed by
// `signer`, accepted (acceptor signature) by the network key the client trusts.
func (w *world) signRecord(prevId string, signer *accountdata.AccountKeys, data *aclrecordproto.AclData) *consensusproto.RawRecordWithId {
	rec := &consensusproto.Record{PrevId: prevId, Identity: must(signer.SignKey.GetPublic().Marshall()), Data: must(data.MarshalVT()), Timestamp: time.Now().Unix()}
	payload := must(rec.MarshalVT())
	raw := &consensusproto.RawRecord{Payload: payload, Signature: must(signer.SignKey.Sign(payload)),
		AcceptorIdentity: must(w.netKey.GetPublic().Raw()), AcceptorSignature: must(w.netKey.Sign(payload))}
	rb := must(raw.MarshalVT())
	return &consensusproto.RawRecordWithId{Payload: rb, Id: must(cidutil.NewCidFromBytes(rb))}
}

// keyProto: a cryptoproto.Key message with a chosen type and data
func keyProto(typ uint64, data []byte) []byte {
	var b []byte
	if typ != 0 {
		b = protowire.AppendVarint(protowire.AppendTag(b, 1, protowire.VarintType), typ)
	}
	return protowire.AppendBytes(protowire.AppendTag(b, 2, protowire.BytesType), data)
}

// aclClientSequence: a CLIENT replica (non-validating verifier: records are trusted once the
// acceptor signature checks out — the keep-only-ours path) receives correctly signed records whose
// inner identities are malformed and addressed to the receiving account: its own key bytes under a
// wrong key type, truncated / empty / over-long keys, non-canonical encodings, in every place an
// identity occurs (read key change, account remove, accounts add, invites). Then probes.
func (w *world) aclClientSequence(scripted int) {
	r := w.r
	owner := w.keys
	author, err := list.NewInMemoryDerivedAcl("clientspace", owner)
	if err != nil {
		w.r.Fatal("acl: " + err.Error())
	}
	st, err := list.NewInMemoryStorage(author.Id(), []*consensusproto.RawRecordWithId{author.Root()})
	if err != nil {
		w.r.Fatal("acl storage: " + err.Error())
	}
	// the receiving account is the owner itself on another device, or (half of the runs) nobody the ACL knows
	recvKeys := owner
	if scripted == 0 && r.Chance(30) {
		recvKeys = w.other
	}
	client, err := list.BuildAclListWithIdentity(recvKeys, st, recordverifier.New(w.netKey.GetPublic()))
	if err != nil {
		w.r.Fatal("acl client: " + err.Error())
	}
	ourRaw := must(recvKeys.SignKey.GetPublic().Raw())
	ourProto := must(recvKeys.SignKey.GetPublic().Marshall())
	otherProto := must(w.other.SignKey.GetPublic().Marshall())
	sealed := must(recvKeys.SignKey.GetPublic().Encrypt([]byte("read key material 0123456789abcdef")))
	identities := [][]byte{
		keyProto(2, ourRaw),      // our key bytes typed AES
		keyProto(1, ourRaw),      // … typed Ed25519Private
		keyProto(7, ourRaw),      // … unknown type
		keyProto(0, ourRaw[:31]), // truncated
		keyProto(0, nil),         // empty key
		{},                       // empty identity
		keyProto(0, append(append([]byte{}, ourRaw...), 0)), // over-long
		append(append([]byte{}, ourProto...), 0x28, 0x01),   // non-canonical: trailing unknown field
		ourProto, otherProto, w.randBytes(12),
	}
	names := []string{"ours-as-aes", "ours-as-private", "ours-unknown-type", "truncated", "empty-key", "empty", "overlong", "noncanonical", "ours", "other", "garbage"}
	pick := func() (int, []byte) {
		k := r.Intn(len(identities))
		return k, identities[k]
	}
	var trace []string
	steps := 2 + r.Intn(4)
	if scripted != 0 {
		steps = 2
	}
	for i := 0; i < steps; i++ {
		k, id := pick()
		shape := r.Intn(4)
		if scripted != 0 {
			k, id, shape = (scripted-1)%len(identities), identities[(scripted-1)%len(identities)], (scripted-1)/len(identities)%2
			if i == 1 {
				k, id, shape = 8, ourProto, 0 // then a well-formed rotation
			}
		}
		mk := func(identity []byte) *aclrecordproto.AclEncryptedReadKey {
			return &aclrecordproto.AclEncryptedReadKey{Identity: identity, EncryptedReadKey: sealed}
		}
		rkc := &aclrecordproto.AclReadKeyChange{AccountKeys: []*aclrecordproto.AclEncryptedReadKey{mk(otherProto), mk(id)},
			MetadataPubKey: ourProto, EncryptedMetadataPrivKey: sealed, EncryptedOldReadKey: sealed}
		var data *aclrecordproto.AclData
		var what string
		switch shape {
		case 0:
			what = "readKeyChange"
			data = &aclrecordproto.AclData{AclContent: []*aclrecordproto.AclContentValue{{Value: &aclrecordproto.AclContentValue_ReadKeyChange{ReadKeyChange: rkc}}}}
		case 1:
			what = "accountRemove+readKeyChange"
			data = &aclrecordproto.AclData{AclContent: []*aclrecordproto.AclContentValue{{Value: &aclrecordproto.AclContentValue_AccountRemove{
				AccountRemove: &aclrecordproto.AclAccountRemove{Identities: [][]byte{id}, ReadKeyChange: rkc}}}}}
		case 2:
			what = "accountsAdd"
			data = &aclrecordproto.AclData{AclContent: []*aclrecordproto.AclContentValue{{Value: &aclrecordproto.AclContentValue_AccountsAdd{
				AccountsAdd: &aclrecordproto.AclAccountsAdd{Additions: []*aclrecordproto.AclAccountAdd{{Identity: id, Permissions: aclrecordproto.AclUserPermissions_Writer, Metadata: sealed, EncryptedReadKey: sealed}}}}}}}
		default:
			what = "readKeyChange(metadata key, invite keys)"
			rkc2 := &aclrecordproto.AclReadKeyChange{AccountKeys: []*aclrecordproto.AclEncryptedReadKey{mk(ourProto)}, InviteKeys: []*aclrecordproto.AclEncryptedReadKey{mk(id)},
				MetadataPubKey: id, EncryptedMetadataPrivKey: sealed, EncryptedOldReadKey: sealed}
			data = &aclrecordproto.AclData{AclContent: []*aclrecordproto.AclContentValue{{Value: &aclrecordproto.AclContentValue_ReadKeyChange{ReadKeyChange: rkc2}}}}
		}
		rec := w.signRecord(client.Head().Id, owner, data)
		trace = append(trace, fmt.Sprintf("signed %s identity=%s", what, names[k]))
		err, pan, hung := guardedFor(probeGuard, func() error {
			client.Lock()
			defer client.Unlock()
			return client.AddRawRecord(rec)
		})
		if w.seqVerdict("acl.client.add", trace, pan, hung) {
			return
		}
		w.r.Count("acl.client.add." + cls(err))
		w.r.Count("acl.client.identity." + names[k])
		// probes: read the state, the keys, and deliver the same record again
		_, pan, hung = guardedFor(probeGuard, func() error {
			client.RLock()
			_ = client.AclState().CurrentAccounts()
			_, _ = client.AclState().CurrentReadKey()
			_ = client.Head()
			client.RUnlock()
			client.Lock()
			defer client.Unlock()
			_ = client.AddRawRecord(rec)
			return nil
		})
		if pan != nil || hung {
			trace = append(trace, "probe: read state + re-deliver")
		}
		if w.seqVerdict("acl.client.probe", trace, pan, hung) {
			return
		}
	}
	w.r.Case("aclclient "+strings.Join(trace, " ; "), true)
	w.r.Count("acl.client.done")
}
