// Package bytes runs every network-facing decoder / validator of any-sync on hostile input (C11):
// boundary inputs, structure-aware mutations of valid messages, random bytes — under recover(),
// with a wall-clock guard and an allocation bound — and compares the ok/err classification of the
// hand-written byte-level logic with the Lean model AnySync.Bytes.
package bytes

import (
	"context"
	"encoding/binary"
	"encoding/hex"
	"errors"
	"fmt"
	"math"
	"os"
	"path/filepath"
	"runtime"
	"strings"
	"testing"
	"time"

	anystore "github.com/anyproto/any-store"
	"github.com/golang/snappy"
	"google.golang.org/protobuf/encoding/protowire"
	"storj.io/drpc"

	"github.com/anyproto/any-sync/app/ldiff"
	"github.com/anyproto/any-sync/commonspace/headsync"
	"github.com/anyproto/any-sync/commonspace/object/accountdata"
	"github.com/anyproto/any-sync/commonspace/object/acl/aclrecordproto"
	"github.com/anyproto/any-sync/commonspace/object/acl/list"
	"github.com/anyproto/any-sync/commonspace/object/acl/recordverifier"
	"github.com/anyproto/any-sync/commonspace/object/keyvalue/keyvaluestorage/innerstorage"
	"github.com/anyproto/any-sync/commonspace/object/tree/objecttree"
	"github.com/anyproto/any-sync/commonspace/object/tree/treechangeproto"
	"github.com/anyproto/any-sync/commonspace/pubsub"
	"github.com/anyproto/any-sync/commonspace/settings/settingsstate"
	"github.com/anyproto/any-sync/commonspace/spacepayloads"
	"github.com/anyproto/any-sync/commonspace/spacestorage"
	"github.com/anyproto/any-sync/commonspace/spacesyncproto"
	"github.com/anyproto/any-sync/consensus/consensusproto"
	"github.com/anyproto/any-sync/net/rpc/encoding"
	"github.com/anyproto/any-sync/net/secureservice"
	hs "github.com/anyproto/any-sync/net/secureservice/handshake"
	"github.com/anyproto/any-sync/net/secureservice/handshake/handshakeproto"
	"github.com/anyproto/any-sync/util/cidutil"
	"github.com/anyproto/any-sync/util/crypto"
	"github.com/anyproto/any-sync/util/crypto/cryptoproto"

	"verifharness/internal/corr"
)

func init() {
	corr.RegisterArea("bytes", Run)
	corr.RegisterExtractor("bytes", extract)
}

const guard = 30 * time.Second

// target: one entry point. run returns the error of the real function.
type target struct {
	name   string
	run    func(in []byte) error
	seeds  [][]byte // valid inputs
	factor int      // allocation bound: factor*len(in) + slack
	slack  int
	nested bool // inputs are protobuf: use the structure-aware mutator
	// isolate: run in a child process (the entry point can kill the process beyond recover():
	// library-owned goroutines, fatal out-of-memory)
	isolate bool
	// model: optional line for the Lean model and the expected answer derived from the impl result
	model func(in []byte, err error) (op, impl string)
	sig   func(in []byte, what string) string // known-finding signature for a failing input
}

type outcome struct {
	err     error
	pan     any
	hung    bool
	alloc   uint64
	elapsed time.Duration
}

func execute(t *target, in []byte) outcome {
	done := make(chan outcome, 1)
	go func() {
		var o outcome
		var m0, m1 runtime.MemStats
		runtime.ReadMemStats(&m0)
		st := time.Now()
		func() {
			defer func() {
				if p := recover(); p != nil {
					o.pan = p
				}
			}()
			o.err = t.run(in)
		}()
		o.elapsed = time.Since(st)
		runtime.ReadMemStats(&m1)
		o.alloc = m1.TotalAlloc - m0.TotalAlloc
		done <- o
	}()
	select {
	case o := <-done:
		return o
	case <-time.After(guard):
		return outcome{hung: true}
	}
}

type world struct {
	r       *corr.Run
	targets []*target
	keys    *accountdata.AccountKeys
	other   *accountdata.AccountKeys
	netKey  crypto.PrivKey
	tmp     string
	hangs   int // sequences stop being generated once a few of them wedged an object (each costs a guard)
	child   *childProc
	crashes int
}

func hexs(b []byte) string {
	if len(b) == 0 {
		return "-"
	}
	if len(b) > 3000 {
		return hex.EncodeToString(b[:3000]) + "…"
	}
	return hex.EncodeToString(b)
}

func (w *world) one(t *target, in []byte, gen string) {
	r := w.r
	op := fmt.Sprintf("%s %s", t.name, hexs(in))
	var o outcome
	if t.isolate && w.crashes >= 4 {
		r.Count(t.name + ".skipped-after-crashes") // never run a crashing entry point in this process
		return
	}
	if t.isolate {
		var crash string
		o, crash = w.executeIsolated(t, in)
		if crash != "" {
			w.crashes++
			r.Count(t.name + ".crash")
			r.Count("gen." + gen)
			r.Violate("C11", "", t.name+".crash", fmt.Sprintf("the process died on a %d-byte input (%s): %s", len(in), gen, firstLine(crash)), []string{op})
			r.Case(op, len(in) > 0)
			return
		}
	} else {
		o = execute(t, in)
	}
	cls := "ok"
	switch {
	case o.hung:
		cls = "hang"
	case o.pan != nil:
		cls = "panic"
	case o.err != nil:
		cls = "err"
	}
	r.Count(t.name + "." + cls)
	r.Count("gen." + gen)
	sig := ""
	switch cls {
	case "panic":
		what := fmt.Sprintf("%v", o.pan)
		if t.sig != nil {
			sig = t.sig(in, what)
		}
		r.Violate("C11", sig, t.name+".panic", fmt.Sprintf("panic on %d-byte input (%s): %s", len(in), gen, firstLine(what)), []string{op})
	case "hang":
		r.Violate("C11", "", t.name+".hang", fmt.Sprintf("no return within %s on %d-byte input (%s)", guard, len(in), gen), []string{op})
	}
	bound := uint64(t.factor)*uint64(len(in)) + uint64(t.slack)
	if cls != "hang" && o.alloc > bound {
		if t.sig != nil {
			sig = t.sig(in, "alloc")
		}
		r.Violate("C11", sig, t.name+".alloc", fmt.Sprintf("%d bytes allocated for a %d-byte input (bound %d) (%s)", o.alloc, len(in), bound, gen), []string{op})
	}
	if t.model != nil && cls != "hang" {
		mop, impl := t.model(in, o.err)
		if mop != "" {
			if cls == "panic" {
				impl = "panic"
			}
			r.Check("C11", t.name+".model", []string{mop}, r.Ask(mop), impl)
		}
	}
	r.Case(op, len(in) > 0)
}

func firstLine(s string) string {
	if i := strings.IndexByte(s, '\n'); i >= 0 {
		s = s[:i]
	}
	if len(s) > 200 {
		s = s[:200]
	}
	return s
}

// ---------------------------------------------------------------------------------------------
// mutators

func (w *world) randBytes(n int) []byte {
	b := make([]byte, n)
	for i := range b {
		b[i] = byte(w.r.Intn(256))
	}
	return b
}

// mutateProto: structure-aware damage of a protobuf message (recursing into bytes fields).
func (w *world) mutateProto(b []byte, depth int) []byte {
	r := w.r
	type fld struct {
		num protowire.Number
		typ protowire.Type
		raw []byte // whole field incl. tag
		val []byte // bytes payload for BytesType
	}
	var fs []fld
	p := b
	for len(p) > 0 {
		num, typ, n := protowire.ConsumeTag(p)
		if n < 0 {
			break
		}
		m := protowire.ConsumeFieldValue(num, typ, p[n:])
		if m < 0 {
			break
		}
		f := fld{num: num, typ: typ, raw: p[:n+m]}
		if typ == protowire.BytesType {
			v, _ := protowire.ConsumeBytes(p[n:])
			f.val = v
		}
		fs = append(fs, f)
		p = p[n+m:]
	}
	if len(fs) == 0 || len(p) > 0 {
		return w.mutateRaw(b)
	}
	join := func(fs []fld) []byte {
		var out []byte
		for _, f := range fs {
			out = append(out, f.raw...)
		}
		return out
	}
	k := r.Intn(len(fs))
	switch r.Intn(12) {
	case 0: // drop a field
		return join(append(append([]fld{}, fs[:k]...), fs[k+1:]...))
	case 1: // duplicate a field
		return join(append(append(append([]fld{}, fs[:k+1]...), fs[k]), fs[k+1:]...))
	case 2: // truncate inside field k
		out := join(fs[:k])
		return append(out, fs[k].raw[:r.Intn(len(fs[k].raw))]...)
	case 3, 4, 5: // recurse into a bytes field
		if fs[k].typ == protowire.BytesType && depth < 5 {
			nv := w.mutateProto(fs[k].val, depth+1)
			nf := protowire.AppendBytes(protowire.AppendTag(nil, fs[k].num, protowire.BytesType), nv)
			fs2 := append([]fld{}, fs...)
			fs2[k] = fld{raw: nf}
			return join(fs2)
		}
		return w.mutateRaw(b)
	case 6: // length-field edit: announce more / fewer bytes than present
		if fs[k].typ == protowire.BytesType {
			delta := []int{1, -1, 5, 127, 1 << 20, math.MaxInt32}[r.Intn(6)]
			l := len(fs[k].val) + delta
			if l < 0 {
				l = 0
			}
			nf := protowire.AppendVarint(protowire.AppendTag(nil, fs[k].num, protowire.BytesType), uint64(l))
			nf = append(nf, fs[k].val...)
			fs2 := append([]fld{}, fs...)
			fs2[k] = fld{raw: nf}
			return join(fs2)
		}
		return w.mutateRaw(b)
	case 7: // empty / short value (short ciphertexts, empty keys)
		if fs[k].typ == protowire.BytesType {
			nv := fs[k].val
			if len(nv) > 0 {
				nv = nv[:r.Intn(min(len(nv), 40))]
			}
			nf := protowire.AppendBytes(protowire.AppendTag(nil, fs[k].num, protowire.BytesType), nv)
			fs2 := append([]fld{}, fs...)
			fs2[k] = fld{raw: nf}
			return join(fs2)
		}
		return w.mutateRaw(b)
	case 8: // wrong wire type for the same field number
		nt := protowire.Type(r.Intn(6))
		nf := protowire.AppendTag(nil, fs[k].num, nt)
		nf = append(nf, fs[k].raw[protowire.SizeTag(fs[k].num):]...)
		fs2 := append([]fld{}, fs...)
		fs2[k] = fld{raw: nf}
		return join(fs2)
	case 9: // renumber the field (field of another kind / unknown field)
		nn := protowire.Number(1 + r.Intn(12))
		nf := protowire.AppendTag(nil, nn, fs[k].typ)
		nf = append(nf, fs[k].raw[protowire.SizeTag(fs[k].num):]...)
		fs2 := append([]fld{}, fs...)
		fs2[k] = fld{raw: nf}
		return join(fs2)
	case 10: // huge varint / overlong varint appended
		out := join(fs)
		out = protowire.AppendTag(out, protowire.Number(1+r.Intn(8)), protowire.VarintType)
		return append(out, 0xff, 0xff, 0xff, 0xff, 0xff, 0xff, 0xff, 0xff, 0xff, byte(r.Intn(256)))
	default:
		return w.mutateRaw(b)
	}
}

// mutateRaw: byte-level damage.
func (w *world) mutateRaw(b []byte) []byte {
	r := w.r
	g := append([]byte{}, b...)
	switch r.Intn(6) {
	case 0:
		if len(g) > 0 {
			return g[:r.Intn(len(g))]
		}
	case 1:
		if len(g) > 0 {
			g[r.Intn(len(g))] ^= 1 << r.Intn(8)
		}
	case 2:
		return append(g, w.randBytes(1+r.Intn(8))...)
	case 3:
		if len(g) > 1 {
			k := r.Intn(len(g))
			return append(g[:k], g[k+1:]...)
		}
	case 4:
		if len(g) > 0 {
			k := r.Intn(len(g))
			g[k] = []byte{0, 0xff, 0x7f, 0x80}[r.Intn(4)]
		}
	case 5:
		if len(g) > 4 {
			k := r.Intn(len(g) - 3)
			binary.LittleEndian.PutUint32(g[k:], []uint32{0, 1, math.MaxUint32, 1 << 31, uint32(len(g))}[r.Intn(5)])
		}
	}
	return g
}

// ---------------------------------------------------------------------------------------------
// fake drpc plumbing for the snappy encoding (public seam: WrapConnEncoding)

type fakeStream struct {
	drpc.Stream
	data []byte
}

func (f *fakeStream) MsgRecv(msg drpc.Message, enc drpc.Encoding) error {
	return enc.Unmarshal(f.data, msg)
}

type fakeConn struct {
	encoding.ConnUnblocked
	data []byte
}

func (f *fakeConn) NewStream(ctx context.Context, rpc string, enc drpc.Encoding) (drpc.Stream, error) {
	return &fakeStream{data: f.data}, nil
}

// ---------------------------------------------------------------------------------------------

func must[T any](v T, err error) T {
	if err != nil {
		panic("harness setup: " + err.Error())
	}
	return v
}

func (w *world) setup() {
	r := w.r
	w.keys = must(accountdata.NewRandom())
	w.other = must(accountdata.NewRandom())
	w.netKey, _, _ = crypto.GenerateRandomEd25519KeyPair()
	w.tmp = must(os.MkdirTemp("", "verif-bytes-*"))

	signPub := w.keys.SignKey.GetPublic()
	plain := []byte("read key material 0123456789abcdef")

	// --- 1. X25519 sealed boxes ------------------------------------------------------------
	sealed := must(signPub.Encrypt(plain))
	w.add(&target{name: "x25519.decrypt", factor: 8, slack: 1 << 16,
		seeds: [][]byte{sealed, must(signPub.Encrypt(nil))},
		run: func(in []byte) error {
			_, err := w.keys.SignKey.Decrypt(in)
			return err
		},
		model: func(in []byte, err error) (string, string) {
			// header split is modelled; box.Open is a trusted primitive
			impl := "crypto"
			if len(in) < 32 {
				impl = cls(err)
			}
			return fmt.Sprintf("x25519 %d", len(in)), impl
		},
		sig: func(in []byte, what string) string {
			if len(in) < 32 && strings.Contains(what, "slice bounds out of range") {
				return "F-x25519-short"
			}
			return ""
		}})

	// --- 2. AES-GCM -------------------------------------------------------------------------
	aesKey := crypto.NewAES()
	w.add(&target{name: "aes.decrypt", factor: 8, slack: 1 << 16,
		seeds: [][]byte{must(aesKey.Encrypt(plain)), must(aesKey.Encrypt(nil))},
		run:   func(in []byte) error { _, err := aesKey.Decrypt(in); return err },
		model: func(in []byte, err error) (string, string) {
			impl := "crypto"
			if len(in) < 12 {
				impl = cls(err)
			}
			return fmt.Sprintf("aes %d", len(in)), impl
		}})
	w.add(&target{name: "aes.unmarshal", factor: 8, slack: 1 << 16, nested: true,
		seeds: [][]byte{must(aesKey.Marshall()), aesKey.Bytes()},
		run: func(in []byte) error {
			_, e1 := crypto.UnmarshallAESKeyProto(in)
			_, e2 := crypto.UnmarshallAESKey(in)
			_, e3 := crypto.UnmarshallAESKeyString(string(in))
			if e1 != nil && e2 != nil && e3 != nil {
				return e1
			}
			return nil
		}})

	// --- 3. Ed25519 keys --------------------------------------------------------------------
	rawPub := must(signPub.Raw())
	rawPriv := must(w.keys.SignKey.Raw())
	w.add(&target{name: "ed25519.pub.raw", factor: 8, slack: 1 << 16,
		seeds: [][]byte{rawPub},
		run:   func(in []byte) error { _, err := crypto.UnmarshalEd25519PublicKey(in); return err },
		model: func(in []byte, err error) (string, string) {
			impl := "crypto" // 32 bytes: curve point check is a trusted primitive
			if len(in) != 32 {
				impl = cls(err)
			}
			return fmt.Sprintf("edpub %d", len(in)), impl
		}})
	w.add(&target{name: "ed25519.priv.raw", factor: 8, slack: 1 << 16,
		seeds: [][]byte{rawPriv, append(append([]byte{}, rawPriv...), rawPub...)},
		run:   func(in []byte) error { _, err := crypto.UnmarshalEd25519PrivateKey(in); return err },
		model: func(in []byte, err error) (string, string) {
			red := "0"
			if len(in) == 96 && string(in[32:64]) == string(in[64:96]) {
				red = "1"
			}
			return fmt.Sprintf("edpriv %d %s", len(in), red), cls(err)
		}})
	var keyObs string
	// extra seeds for the generated decoder: unknown fields of every wire type, groups, overlong varints
	kp := must(signPub.Marshall())
	unk := func(num protowire.Number, typ protowire.Type, val []byte) []byte {
		return append(protowire.AppendTag(append([]byte{}, kp...), num, typ), val...)
	}
	w.add(&target{name: "ed25519.proto", factor: 8, slack: 1 << 16, nested: true,
		seeds: [][]byte{kp, must(w.keys.SignKey.Marshall()), must(aesKey.Marshall()), // a 32-byte key of another type
			protowire.AppendBytes(protowire.AppendTag(protowire.AppendVarint(protowire.AppendTag(nil, 1, protowire.VarintType), 1), 2, protowire.BytesType), make([]byte, 32)),
			unk(5, protowire.VarintType, []byte{0x80, 0x80, 0x01}), unk(6, protowire.Fixed64Type, make([]byte, 8)), unk(7, protowire.Fixed32Type, make([]byte, 4)),
			unk(8, protowire.BytesType, []byte{3, 1, 2, 3}), append(unk(9, protowire.StartGroupType, []byte{0x08, 0x01}), 0x4c),
			unk(10, protowire.StartGroupType, []byte{0x53, 0x54, 0x54}), unk(11, protowire.EndGroupType, nil),
			{0x08, 0xff, 0xff, 0xff, 0xff, 0xff, 0xff, 0xff, 0xff, 0xff, 0x01}, {0x08, 0xff, 0xff, 0xff, 0xff, 0xff, 0xff, 0xff, 0xff, 0xff, 0xff, 0x01},
			{0x12, 0xff, 0xff, 0xff, 0xff, 0xff, 0xff, 0xff, 0xff, 0xff, 0x01}, {0x12, 0xff, 0xff, 0xff, 0xff, 0xff, 0xff, 0xff, 0xff, 0x7f}, {0x00}, {0x80, 0x80, 0x80, 0x80, 0x10, 0x00}},
		run: func(in []byte) error {
			keyObs = ""
			k := &cryptoproto.Key{}
			kerr := k.UnmarshalVT(in)
			_, e1 := crypto.UnmarshalEd25519PublicKeyProto(in)
			_, e2 := crypto.UnmarshalEd25519PrivateKeyProto(in)
			_, e3 := crypto.NewKeyStorage().PubKeyFromProto(in)
			ko := "err"
			if kerr == nil {
				ko = fmt.Sprintf("ok:%d:%d", uint32(k.Type), len(k.Data))
			}
			eo := "err"
			if e1 == nil || strings.HasPrefix(e1.Error(), "invalid ed25519 public key") {
				eo = "crypto" // 32 bytes of the right type reached the point decoder
			}
			keyObs = fmt.Sprintf("key=%s ed=%s", ko, eo)
			if e1 != nil && e2 != nil && e3 != nil {
				return e1
			}
			return nil
		},
		model: func(in []byte, err error) (string, string) {
			if len(in) > 2000 {
				return "", ""
			}
			return "keyproto " + hexs(in), keyObs
		}})
	w.add(&target{name: "key.strings", factor: 64, slack: 1 << 16,
		seeds: [][]byte{[]byte(w.keys.PeerId), []byte(signPub.Account()), []byte(signPub.Network())},
		run: func(in []byte) error {
			_, e1 := crypto.DecodePeerId(string(in))
			_, e2 := crypto.DecodeAccountAddress(string(in))
			_, e3 := crypto.DecodeNetworkId(string(in))
			_, e4 := crypto.DecodeBytesFromString(string(in))
			if e1 != nil && e2 != nil && e3 != nil && e4 != nil {
				return e1
			}
			return nil
		}})

	// --- 4. handshake frames (readMsg) -------------------------------------------------------
	hsRun := func(role int) func(in []byte) error {
		return func(in []byte) error {
			c := newMemConn(in)
			ctx, cancel := context.WithCancel(context.Background())
			defer cancel()
			go func() { // release a reader that waits for more than the peer sent
				c.waitParkedOrClosed()
				cancel()
			}()
			var err error
			switch role {
			case 0:
				cc := secureservice.VerifNewNoVerifyChecker(1, []uint32{0, 1}, "v")
				_, err = hs.IncomingHandshake(ctx, c, "peer", cc)
			case 1:
				cc := secureservice.VerifNewPeerSignVerifier(1, []uint32{0, 1}, "v", w.keys)
				_, err = hs.OutgoingHandshake(ctx, c, "peer", cc)
			case 2:
				_, err = hs.IncomingProtoHandshake(ctx, c, hs.ProtoChecker{AllowedProtoTypes: []handshakeproto.ProtoType{handshakeproto.ProtoType_DRPC},
					SupportedEncodings: []handshakeproto.Encoding{handshakeproto.Encoding_Snappy}})
			default:
				_, err = hs.OutgoingProtoHandshake(ctx, c, &handshakeproto.Proto{Proto: handshakeproto.ProtoType_DRPC, Encodings: []handshakeproto.Encoding{handshakeproto.Encoding_Snappy}})
			}
			if c.maxReq > 200*1024+5 {
				return fmt.Errorf("verif: read request of %d bytes", c.maxReq)
			}
			return err
		}
	}
	frame := func(tp byte, p []byte) []byte {
		b := []byte{tp, 0, 0, 0, 0}
		binary.LittleEndian.PutUint32(b[1:], uint32(len(p)))
		return append(b, p...)
	}
	credP := protowire.AppendVarint(protowire.AppendTag(nil, 3, protowire.VarintType), 1)
	hsSeed := append(frame(1, credP), frame(2, nil)...)
	// every frame type as the FIRST frame of every handshake (cred / ack / proto / unknown), with a
	// decodable payload, followed by the other types: a frame of the wrong kind where another is expected
	protoP := []byte{8, 0, 16, 1}
	wrongFirst := [][]byte{hsSeed, frame(3, protoP), frame(2, nil), frame(2, []byte{8, 0}), frame(2, []byte{8, 7}), frame(1, credP), frame(3, nil), frame(4, nil),
		append(frame(2, nil), frame(3, protoP)...), append(frame(3, protoP), frame(2, nil)...), append(frame(2, nil), frame(2, nil)...),
		append(frame(1, credP), frame(3, protoP)...), append(frame(3, protoP), frame(1, credP)...), append(frame(2, nil), hsSeed...)}
	for i, n := range []string{"handshake.incoming", "handshake.outgoing", "handshake.proto", "handshake.proto.outgoing"} {
		role := i
		// isolated: the handshake wrappers run the protocol in a goroutine of their own; a panic there kills the process
		t := &target{name: n, factor: 8, slack: 1 << 20, seeds: wrongFirst, run: hsRun(role), isolate: true}
		w.add(t)
	}

	// --- 5. pub/sub topics ------------------------------------------------------------------
	var topicObs string
	w.add(&target{name: "pubsub.topic", factor: 64, slack: 1 << 16,
		seeds: [][]byte{[]byte("acc/chat/" + signPub.Account()), []byte("a/b/c"), []byte("a/*/>"), []byte(strings.Repeat("s/", 15) + "x"), []byte(strings.Repeat("s/", 16) + "x")},
		run: func(in []byte) error {
			topicObs = ""
			e1 := pubsub.ValidateTopic(string(in))
			e2 := pubsub.ValidatePattern(string(in))
			owner := pubsub.TopicOwner(string(in))
			if owner == "" {
				owner = "-"
			}
			topicObs = fmt.Sprintf("topic=%s pattern=%s owner=%s", cls(e1), cls(e2), owner)
			if e1 != nil && e2 != nil {
				return e1
			}
			return nil
		},
		model: func(in []byte, err error) (string, string) {
			s := string(in)
			for _, c := range in {
				if c <= ' ' || c >= 0x7f {
					return "", "" // only printable ASCII goes through the line protocol
				}
			}
			if s == "" {
				s = "-"
			} else if s == "-" {
				return "", ""
			}
			return "topic " + s, topicObs
		}})

	// --- 6. space payloads ------------------------------------------------------------------
	masterKey, _, _ := crypto.GenerateRandomEd25519KeyPair()
	metaKey, _, _ := crypto.GenerateRandomEd25519KeyPair()
	sp := must(spacepayloads.StoragePayloadForSpaceCreate(spacepayloads.SpaceCreatePayload{
		SigningKey: w.keys.SignKey, SpaceType: "t", ReplicationKey: 10, SpacePayload: []byte("p"),
		MasterKey: masterKey, ReadKey: crypto.NewAES(), MetadataKey: metaKey, Metadata: []byte("m")}))
	spV1 := must(spacepayloads.StoragePayloadForSpaceCreateV1(spacepayloads.SpaceCreatePayload{
		SigningKey: w.keys.SignKey, SpaceType: "t", ReplicationKey: 10, SpacePayload: []byte("p"),
		MasterKey: masterKey, ReadKey: crypto.NewAES(), MetadataKey: metaKey, Metadata: []byte("m")}))
	if err := spacepayloads.ValidateSpaceStorageCreatePayload(sp); err != nil {
		r.Fatal("valid space payload rejected: " + err.Error())
	}
	hdrBytes := must(sp.SpaceHeaderWithId.MarshalVT())
	w.add(&target{name: "space.header", factor: 32, slack: 1 << 17, nested: true,
		seeds: [][]byte{hdrBytes, must(spV1.SpaceHeaderWithId.MarshalVT())},
		run: func(in []byte) error {
			h := &spacesyncproto.RawSpaceHeaderWithId{}
			if err := h.UnmarshalVT(in); err != nil {
				return err
			}
			_, err := spacepayloads.ValidateSpaceHeader(h, signPub, nil, nil)
			return err
		}})
	// the id string alone (suffix slicing), header bytes fixed
	w.add(&target{name: "space.header.id", factor: 64, slack: 1 << 17,
		seeds: [][]byte{[]byte(sp.SpaceHeaderWithId.Id), []byte("bafy."), []byte("."), []byte("x.y.z")},
		run: func(in []byte) error {
			_, err := spacepayloads.ValidateSpaceHeader(&spacesyncproto.RawSpaceHeaderWithId{RawHeader: sp.SpaceHeaderWithId.RawHeader, Id: string(in)}, nil, nil, nil)
			return err
		},
		model: func(in []byte, err error) (string, string) {
			for _, c := range in {
				if c <= ' ' || c >= 0x7f {
					return "", ""
				}
			}
			if len(in) == 0 || string(in) == "-" {
				return "", ""
			}
			impl := "cid" // a dot is present: next step is the (trusted) CID verification
			if !strings.Contains(string(in), ".") {
				impl = cls(err)
			}
			return "spaceid " + string(in), impl
		}})
	// whole create payload: three parts, each possibly mutated (wrappers always allocated, as on
	// both RPC paths that reach the validator)
	type triple struct{ a, h, s []byte }
	enc3 := func(p spacestorage.SpaceStorageCreatePayload) []byte {
		var b []byte
		b = protowire.AppendBytes(protowire.AppendTag(b, 1, protowire.BytesType), must(p.AclWithId.MarshalVT()))
		b = protowire.AppendBytes(protowire.AppendTag(b, 2, protowire.BytesType), must(p.SpaceHeaderWithId.MarshalVT()))
		b = protowire.AppendBytes(protowire.AppendTag(b, 3, protowire.BytesType), must(p.SpaceSettingsWithId.MarshalVT()))
		return b
	}
	w.add(&target{name: "space.create-payload", factor: 32, slack: 1 << 17, nested: true,
		seeds: [][]byte{enc3(sp), enc3(spV1)},
		run: func(in []byte) error {
			p := spacestorage.SpaceStorageCreatePayload{AclWithId: &consensusproto.RawRecordWithId{}, SpaceSettingsWithId: &treechangeproto.RawTreeChangeWithId{}}
			rest := in
			for len(rest) > 0 {
				num, typ, n := protowire.ConsumeTag(rest)
				if n < 0 || typ != protowire.BytesType {
					return errors.New("harness: outer envelope")
				}
				v, m := protowire.ConsumeBytes(rest[n:])
				if m < 0 {
					return errors.New("harness: outer envelope")
				}
				switch num {
				case 1:
					_ = p.AclWithId.UnmarshalVT(v)
				case 2:
					p.SpaceHeaderWithId = &spacesyncproto.RawSpaceHeaderWithId{}
					_ = p.SpaceHeaderWithId.UnmarshalVT(v)
				case 3:
					_ = p.SpaceSettingsWithId.UnmarshalVT(v)
				}
				rest = rest[n+m:]
			}
			return spacepayloads.ValidateSpaceStorageCreatePayload(p)
		}})

	// --- 7. snappy rpc encoding -------------------------------------------------------------
	bigReq := &spacesyncproto.HeadSyncRequest{SpaceId: strings.Repeat("space", 50)}
	snapSeed := snappy.Encode(nil, must(bigReq.MarshalVT()))
	w.add(&target{name: "rpc.snappy", factor: 64, slack: 1 << 20,
		seeds: [][]byte{snapSeed, snappy.Encode(nil, nil)},
		run: func(in []byte) error {
			c := encoding.WrapConnEncoding(&fakeConn{data: in}, true)
			st, err := c.NewStream(context.Background(), "x", nil)
			if err != nil {
				return err
			}
			return st.MsgRecv(&spacesyncproto.HeadSyncRequest{}, nil)
		},
		sig: func(in []byte, what string) string {
			// a tiny frame announcing a huge decoded length
			if what == "alloc" {
				if n, err := snappy.DecodedLen(in); err == nil && n > 64*len(in) {
					return "F-snappy-declen"
				}
			}
			return ""
		}})

	// --- 8. ACL records ---------------------------------------------------------------------
	acl := must(list.NewInMemoryDerivedAcl("space1", w.keys))
	rootRaw := acl.Root()
	netPubRaw := must(w.netKey.GetPublic().Raw())
	mkRec := func(data *aclrecordproto.AclData) []byte {
		rec := &consensusproto.Record{PrevId: acl.Head().Id, Identity: must(signPub.Marshall()), Data: must(data.MarshalVT()), Timestamp: 1}
		payload := must(rec.MarshalVT())
		raw := &consensusproto.RawRecord{Payload: payload, Signature: must(w.keys.SignKey.Sign(payload)),
			AcceptorIdentity: netPubRaw, AcceptorSignature: must(w.netKey.Sign(payload))}
		rb := must(raw.MarshalVT())
		id := must(cidutil.NewCidFromBytes(rb))
		return must((&consensusproto.RawRecordWithId{Payload: rb, Id: id}).MarshalVT())
	}
	ourID := must(signPub.Marshall())
	otherID := must(w.other.SignKey.GetPublic().Marshall())
	ek := func(id []byte) *aclrecordproto.AclEncryptedReadKey {
		return &aclrecordproto.AclEncryptedReadKey{Identity: id, EncryptedReadKey: sealed}
	}
	rkc := &aclrecordproto.AclReadKeyChange{AccountKeys: []*aclrecordproto.AclEncryptedReadKey{ek(otherID), ek(ourID), ek(otherID)},
		MetadataPubKey: ourID, EncryptedMetadataPrivKey: sealed, EncryptedOldReadKey: sealed}
	recRKC := mkRec(&aclrecordproto.AclData{AclContent: []*aclrecordproto.AclContentValue{{Value: &aclrecordproto.AclContentValue_ReadKeyChange{ReadKeyChange: rkc}}}})
	recRemove := mkRec(&aclrecordproto.AclData{AclContent: []*aclrecordproto.AclContentValue{{Value: &aclrecordproto.AclContentValue_AccountRemove{
		AccountRemove: &aclrecordproto.AclAccountRemove{Identities: [][]byte{otherID}, ReadKeyChange: rkc}}}}})
	recAdd := mkRec(&aclrecordproto.AclData{AclContent: []*aclrecordproto.AclContentValue{{Value: &aclrecordproto.AclContentValue_AccountsAdd{
		AccountsAdd: &aclrecordproto.AclAccountsAdd{Additions: []*aclrecordproto.AclAccountAdd{{Identity: otherID, Permissions: 2, Metadata: sealed, EncryptedReadKey: sealed}}}}}}})
	builderFast := list.NewAclRecordBuilder(rootRaw.Id, crypto.NewKeyStorage(), w.keys, recordverifier.New(w.netKey.GetPublic()))
	builderFull := list.NewAclRecordBuilder(rootRaw.Id, crypto.NewKeyStorage(), w.keys, recordverifier.NewValidateFull())
	aclRun := func(b list.AclRecordBuilder) func(in []byte) error {
		return func(in []byte) error {
			rw := &consensusproto.RawRecordWithId{}
			if err := rw.UnmarshalVT(in); err != nil {
				return err
			}
			_, err := b.UnmarshallWithId(rw)
			raw := &consensusproto.RawRecord{}
			if raw.UnmarshalVT(rw.Payload) == nil {
				_, _ = b.Unmarshall(raw)
			}
			return err
		}
	}
	aclSeeds := [][]byte{recRKC, recRemove, recAdd, must(rootRaw.MarshalVT())}
	if err := aclRun(builderFast)(recRKC); err != nil {
		r.Fatal("valid acl record rejected: " + err.Error())
	}
	w.add(&target{name: "acl.record.keep-identity", factor: 64, slack: 1 << 18, nested: true, seeds: aclSeeds, run: aclRun(builderFast)})
	w.add(&target{name: "acl.record.full", factor: 64, slack: 1 << 18, nested: true, seeds: aclSeeds, run: aclRun(builderFull)})

	// --- 9. tree changes --------------------------------------------------------------------
	cb0 := objecttree.NewChangeBuilder(crypto.NewKeyStorage(), nil)
	_, rootCh, err := cb0.BuildRoot(objecttree.InitialContent{AclHeadId: acl.Head().Id, PrivKey: w.keys.SignKey, SpaceId: "space1", ChangeType: "t", Timestamp: 1, Seed: []byte("s")})
	if err != nil {
		r.Fatal("tree root: " + err.Error())
	}
	cb := objecttree.NewChangeBuilder(crypto.NewKeyStorage(), rootCh)
	cbNoData := objecttree.NewEmptyDataChangeBuilder(crypto.NewKeyStorage(), rootCh)
	_, chRaw, err := cb.Build(objecttree.BuilderContent{TreeHeadIds: []string{rootCh.Id}, AclHeadId: acl.Head().Id, SnapshotBaseId: rootCh.Id,
		PrivKey: w.keys.SignKey, ReadKey: crypto.NewAES(), ReadKeyId: "rk", Content: []byte("data"), Timestamp: 2, DataType: "d"})
	if err != nil {
		r.Fatal("tree change: " + err.Error())
	}
	w.add(&target{name: "tree.change", factor: 64, slack: 1 << 18, nested: true,
		seeds: [][]byte{must(chRaw.MarshalVT()), must(rootCh.MarshalVT())},
		run: func(in []byte) error {
			rw := &treechangeproto.RawTreeChangeWithId{}
			if err := rw.UnmarshalVT(in); err != nil {
				return err
			}
			_, e1 := cb.Unmarshall(rw, true)
			_, _ = cb.Unmarshall(rw, false)
			_, _ = cbNoData.Unmarshall(rw, true)
			_, _ = cb.UnmarshallReduced(rw)
			if w.r.Chance(20) {
				_, _ = cb.Unmarshall(nil, true)
			}
			return e1
		}})

	// --- 10. key-value entries --------------------------------------------------------------
	inner := &spacesyncproto.StoreKeyInner{Peer: must(w.keys.PeerKey.GetPublic().Marshall()), Identity: ourID, Value: []byte("v"), TimestampMicro: 5, AclHeadId: acl.Head().Id, Key: "k"}
	innerB := must(inner.MarshalVT())
	kvp := &spacesyncproto.StoreKeyValue{KeyPeerId: "k-" + w.keys.PeerId, Value: innerB, IdentitySignature: must(w.keys.SignKey.Sign(innerB)), PeerSignature: must(w.keys.PeerKey.Sign(innerB))}
	w.add(&target{name: "keyvalue.from-proto", factor: 64, slack: 1 << 18, nested: true,
		seeds: [][]byte{must(kvp.MarshalVT())},
		run: func(in []byte) error {
			p := &spacesyncproto.StoreKeyValue{}
			if err := p.UnmarshalVT(in); err != nil {
				return err
			}
			_, err := innerstorage.KeyValueFromProto(p, true)
			_, _ = innerstorage.KeyValueFromProto(p, false)
			return err
		}})

	// --- 11. head sync ----------------------------------------------------------------------
	d := ldiff.New(4, 2)
	for i := 0; i < 200; i++ {
		d.Set(ldiff.Element{Id: fmt.Sprintf("id%d", i), Head: fmt.Sprintf("h%d", i)})
	}
	hsReq := &spacesyncproto.HeadSyncRequest{SpaceId: "space1", Ranges: []*spacesyncproto.HeadSyncRange{{From: 0, To: math.MaxUint64, Limit: 2}, {From: 5, To: 4, Elements: true}, {From: math.MaxUint64, To: 0}}}
	// isolated: a peer-sized allocation may end in a fatal out-of-memory
	w.add(&target{name: "headsync.range-request", factor: 4096, slack: 1 << 20, nested: true, isolate: true,
		seeds: [][]byte{must(hsReq.MarshalVT())},
		run: func(in []byte) error {
			req := &spacesyncproto.HeadSyncRequest{}
			if err := req.UnmarshalVT(in); err != nil {
				return err
			}
			if len(req.Ranges) > 64 {
				req.Ranges = req.Ranges[:64]
			}
			_, err := headsync.HandleRangeRequest(context.Background(), d, req)
			return err
		}})

	w.add(w.rangesTarget())

	// --- 12. settings state from a hostile snapshot-flagged change ---------------------------
	w.add(&target{name: "settings.state", factor: 4096, slack: 8 << 20, nested: true,
		seeds: [][]byte{
			must((&spacesyncproto.SettingsData{Content: []*spacesyncproto.SpaceSettingsContent{{Value: &spacesyncproto.SpaceSettingsContent_ObjectDelete{ObjectDelete: &spacesyncproto.ObjectDelete{Id: "x"}}}}}).MarshalVT()),
			must((&spacesyncproto.SettingsData{Snapshot: &spacesyncproto.SpaceSettingsSnapshot{DeletedIds: []string{"a", "b"}}}).MarshalVT()),
			{},
		},
		run: w.settingsRun,
		model: func(in []byte, err error) (string, string) {
			sd := &spacesyncproto.SettingsData{}
			if sd.UnmarshalVT(in) != nil {
				return "", ""
			}
			p := "0"
			if sd.Snapshot != nil {
				p = "1"
			}
			return "snapshot " + p, cls(err)
		},
		sig: func(in []byte, what string) string {
			sd := &spacesyncproto.SettingsData{}
			if sd.UnmarshalVT(in) == nil && sd.Snapshot == nil && strings.Contains(what, "nil pointer") {
				return "F-settings-nil-snapshot"
			}
			return ""
		}})
}

// rangesTarget: the wrapping uint64 arithmetic of genTupleRanges, input = from ‖ to ‖ df
func (w *world) rangesTarget() *target {
	var last string
	return &target{name: "ldiff.ranges", factor: 64, slack: 1 << 16,
		seeds: [][]byte{append(append(binary.LittleEndian.AppendUint64(nil, 0), 0xff, 0xff, 0xff, 0xff, 0xff, 0xff, 0xff, 0xff), 4)},
		run: func(in []byte) error {
			last = ""
			if len(in) < 17 {
				return errors.New("harness: short")
			}
			df := int(in[16]%16) + 1
			res := ldiff.VerifBytesGenTupleRanges(binary.LittleEndian.Uint64(in), binary.LittleEndian.Uint64(in[8:]), df)
			parts := make([]string, len(res))
			for i, t := range res {
				parts[i] = fmt.Sprintf("%d:%d", t[0], t[1])
			}
			last = strings.Join(parts, ",")
			return nil
		},
		model: func(in []byte, err error) (string, string) {
			if len(in) < 17 {
				return "", ""
			}
			return fmt.Sprintf("ranges %d %d %d", binary.LittleEndian.Uint64(in), binary.LittleEndian.Uint64(in[8:]), int(in[16]%16)+1), last
		}}
}

func (w *world) add(t *target) { w.targets = append(w.targets, t) }

func cls(err error) string {
	if err != nil {
		return "err"
	}
	return "ok"
}

var settingsSeq int

// settingsRun: a writer publishes a change flagged IsSnapshot whose payload is `in`; after the
// tree reduces to it, the settings state is built from that root.
func (w *world) settingsRun(in []byte) error {
	ctx := context.Background()
	settingsSeq++
	dir := filepath.Join(w.tmp, fmt.Sprintf("st%d", settingsSeq))
	defer os.RemoveAll(dir)
	acl, err := list.NewInMemoryDerivedAcl("s", w.keys)
	if err != nil {
		return errors.New("harness: " + err.Error())
	}
	var db anystore.DB
	cc := objecttree.NewMockChangeCreator(func() anystore.DB {
		db, err = anystore.Open(ctx, dir, nil)
		if err != nil {
			panic("harness: " + err.Error())
		}
		return db
	})
	st := cc.CreateNewTreeStorage(&testing.T{}, "0", acl.Head().Id, false)
	defer func() {
		if db != nil {
			db.Close()
		}
	}()
	tr, err := objecttree.BuildTestableTree(st, acl)
	if err != nil {
		return errors.New("harness: " + err.Error())
	}
	raw := cc.CreateRawWithData("s1", acl.Head().Id, "0", true, in, "0")
	tr.Lock()
	_, err = tr.AddRawChanges(ctx, objecttree.RawChangesPayload{NewHeads: []string{"s1"}, RawChanges: []*treechangeproto.RawTreeChangeWithId{raw}})
	tr.Unlock()
	if err != nil {
		return err
	}
	_, err = settingsstate.NewStateBuilder().Build(tr, nil)
	return err
}

func Run(r *corr.Run) {
	r.SetRule("one case = one call of a real entry point under recover(); non-trivial when the input is non-empty; distinct by entry point + input bytes")
	w := &world{r: r}
	w.setup()
	defer os.RemoveAll(w.tmp)
	defer func() { w.child.stop() }()

	// (a) boundaries: every prefix length of every seed up to 80 bytes, plus lengths around it with zero / 0xff fill
	for _, t := range w.targets {
		heavy := t.name == "settings.state"
		for si, s := range t.seeds {
			lim := min(len(s), 80)
			if heavy {
				lim = min(len(s), 6)
			}
			if si >= 3 && t.isolate {
				lim = -1 // further seeds of isolated targets: the whole input only (each call is a round trip to the child)
			}
			for n := 0; n <= lim; n++ {
				w.one(t, append([]byte{}, s[:n]...), "prefix")
			}
			if si == 0 && !heavy {
				for n := 0; n <= 100; n++ {
					if n > 40 && n%8 != 0 {
						continue
					}
					w.one(t, make([]byte, n), "zeros")
					ff := make([]byte, n)
					for i := range ff {
						ff[i] = 0xff
					}
					w.one(t, ff, "ones")
				}
			}
			w.one(t, s, "valid")
		}
	}
	// snappy: tiny inputs announcing large decoded lengths
	for _, t := range w.targets {
		if t.name != "rpc.snappy" {
			continue
		}
		for _, n := range []uint64{1 << 10, 1 << 16, 1 << 20, 16 << 20, 64 << 20} {
			hdr := binary.AppendUvarint(nil, n)
			w.one(t, hdr, "snappy-declen")
			w.one(t, append(hdr, 0x00, 'a'), "snappy-declen")
		}
	}
	// head sync: hostile narrow / reversed / wrapping ranges, limits and element flags (the diff has df=4, thr=2)
	for _, t := range w.targets {
		if t.name != "headsync.range-request" {
			continue
		}
		maxU := uint64(math.MaxUint64)
		type rg struct {
			from, to uint64
			limit    uint32
			els      bool
		}
		var cases [][]rg
		for _, base := range []uint64{0, 1, 5, 1 << 32, 1 << 63, maxU - 3, maxU - 1, maxU} {
			for _, wdt := range []uint64{0, 1, 2, 3, 4, 5} { // narrower than, equal to and just above df
				for _, lim := range []uint32{0, 1, 1 << 16, 1 << 20, 1 << 24, 1 << 28, math.MaxUint32} { // allocation must not follow the peer's Limit
					cases = append(cases, []rg{{base, base + wdt, lim, false}, {base, base + wdt, lim, true}})
				}
			}
			cases = append(cases, []rg{{base, base - 1, 0, true}}, []rg{{base + 1, base, math.MaxUint32, false}}) // from > to
		}
		var many []rg
		for i := 0; i < 64; i++ { // the element flag on huge ranges, many times in one request
			many = append(many, rg{0, maxU, uint32(i), true})
		}
		cases = append(cases, many, []rg{{maxU, 0, 0, true}, {0, maxU, 0, false}, {1 << 63, (1 << 63) - 1, 7, true}})
		for _, c := range cases {
			req := &spacesyncproto.HeadSyncRequest{SpaceId: "space1"}
			for _, x := range c {
				req.Ranges = append(req.Ranges, &spacesyncproto.HeadSyncRange{From: x.from, To: x.to, Limit: x.limit, Elements: x.els})
			}
			w.one(t, must(req.MarshalVT()), "headsync-guard")
		}
	}
	// topics: guard-directed
	for _, t := range w.targets {
		if t.name != "pubsub.topic" {
			continue
		}
		for _, s := range []string{"/", "a/", "/a", "a//b", "*", ">", "a/>", ">/a", "a*/b", "a/b>", "acc/x", "acc", "acc/",
			strings.Repeat("a", 256), strings.Repeat("a", 257), strings.Repeat("a/", 127) + "aa", strings.Repeat("a/", 15) + "a", strings.Repeat("a/", 16) + "a",
			strings.Repeat("/", 16), strings.Repeat("/", 17), strings.Repeat("a/", 16) + ">", strings.Repeat("*/", 15) + ">"} {
			w.one(t, []byte(s), "topic-guard")
		}
	}
	// (b) + (c): mutations and random bytes
	rounds := 0
	for r.TimeLeft() && rounds < r.Pick(6000, 120000) {
		rounds++
		t := w.targets[r.Intn(len(w.targets))]
		if t.name == "settings.state" && !r.Chance(15) {
			continue
		}
		switch k := r.Intn(10); {
		case k < 6 && len(t.seeds) > 0:
			s := t.seeds[r.Intn(len(t.seeds))]
			gen := "mutate-raw"
			var in []byte
			if t.nested {
				in = w.mutateProto(s, 0)
				gen = "mutate-proto"
				if r.Chance(30) {
					in = w.mutateProto(in, 0)
				}
			} else {
				in = w.mutateRaw(s)
				if r.Chance(30) {
					in = w.mutateRaw(in)
				}
			}
			w.one(t, in, gen)
		case k < 8:
			w.one(t, w.randBytes(r.Intn(120)), "random")
		default:
			// printable random (topics, ids, key strings)
			n := r.Intn(60)
			b := make([]byte, n)
			alpha := "ab/*>.-_09 z"
			for i := range b {
				b[i] = alpha[r.Intn(len(alpha))]
			}
			w.one(t, b, "random-text")
		}
	}
	r.Note("rounds=%d targets=%d", rounds, len(w.targets))
	// stateful multi-message sequences (tree, acl)
	tf := w.newTreeFixture()
	defer tf.close()
	for k := 1; k <= 8 && w.hangs < 3; k++ {
		w.treeSequence(tf, k, false)
		w.treeSequence(tf, k, true)
	}
	for k := 1; k <= 12 && w.hangs < 3; k++ { // refused-by-the-validator batches, then valid changes / local writes
		w.verifTreeSequence(tf, k, k%3 == 0)
	}
	for k := 1; k <= 22 && w.hangs < 3; k++ { // every malformed identity in a read key change / account remove, then a good rotation
		w.aclClientSequence(k)
	}
	ps := w.newPsWorld()
	for k := 1; k <= 7 && w.hangs < 3; k++ {
		w.pubsubSequence(ps, k)
	}
	seqs := 0
	seqDeadline := time.Now().Add(time.Duration(r.Pick(8, 120)) * time.Second)
	for (r.TimeLeft() || time.Now().Before(seqDeadline)) && seqs < r.Pick(400, 20000) && time.Now().Before(seqDeadline) && w.hangs < 3 {
		seqs++
		switch k := r.Intn(20); {
		case k < 9:
			w.treeSequence(tf, 0, r.Chance(50))
		case k < 13:
			w.verifTreeSequence(tf, 0, r.Chance(50))
		case k < 14:
			w.aclSequence()
		case k < 15:
			w.aclClientSequence(0)
		case k < 18:
			w.pubsubSequence(ps, 0)
		default:
			w.kvSequence(tf)
		}
	}
	r.Note("sequences=%d", seqs)
}
