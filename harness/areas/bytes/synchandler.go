package bytes

import (
	"context"

	"google.golang.org/protobuf/proto"

	"github.com/anyproto/any-sync/commonspace/object/tree/objecttree"
	"github.com/anyproto/any-sync/commonspace/object/tree/synctree"
	"github.com/anyproto/any-sync/commonspace/object/tree/synctree/updatelistener"
	"github.com/anyproto/any-sync/commonspace/object/tree/treechangeproto"
	"github.com/anyproto/any-sync/commonspace/sync/objectsync/objectmessages"
	"github.com/anyproto/any-sync/commonspace/sync/syncdeps"
	"github.com/anyproto/any-sync/commonspace/syncstatus"
	"github.com/anyproto/any-sync/net/peer"
)

// The real tree sync handler (synctree.NewSyncHandler → HandleHeadUpdate) in front of a real
// ObjectTree: the entry point at which a peer's head-update messages arrive.

type stubSyncTree struct {
	objecttree.ObjectTree
	syncdeps.ObjectSyncHandler
}

func (s *stubSyncTree) AddRawChangesFromPeer(ctx context.Context, peerId string, p objecttree.RawChangesPayload) (objecttree.AddResult, error) {
	return s.ObjectTree.AddRawChanges(ctx, p)
}
func (s *stubSyncTree) SetListener(updatelistener.UpdateListener)     {}
func (s *stubSyncTree) SetDeferredUpdater(bool)                       {}
func (s *stubSyncTree) SyncWithPeer(context.Context, peer.Peer) error { return nil }

type stubSyncClient struct{ synctree.RequestFactory }

func (stubSyncClient) Broadcast(context.Context, *objectmessages.HeadUpdate) error { return nil }
func (stubSyncClient) SendTreeRequest(context.Context, syncdeps.Request, syncdeps.ResponseCollector) error {
	return nil
}
func (stubSyncClient) QueueRequest(context.Context, syncdeps.Request) error { return nil }

type headUpdater struct {
	h      syncdeps.ObjectSyncHandler
	status syncstatus.StatusUpdater
	treeId string
	root   *treechangeproto.RawTreeChangeWithId
}

func newHeadUpdater(tr objecttree.ObjectTree, treeId string, root *treechangeproto.RawTreeChangeWithId) *headUpdater {
	return &headUpdater{
		h:      synctree.NewSyncHandler(&stubSyncTree{ObjectTree: tr}, stubSyncClient{synctree.NewRequestFactory("space")}, "space"),
		status: syncstatus.NewNoOpSyncStatus(), treeId: treeId, root: root,
	}
}

// message bytes of a head update carrying the batch
func (u *headUpdater) encode(heads []string, raws []*treechangeproto.RawTreeChangeWithId, snapshotPath []string) []byte {
	msg := treechangeproto.WrapHeadUpdate(&treechangeproto.TreeHeadUpdate{Heads: heads, Changes: raws, SnapshotPath: snapshotPath}, u.root)
	b, _ := msg.MarshalVT()
	return b
}

func (u *headUpdater) deliver(b []byte) error {
	ctx := peer.CtxWithPeerId(context.Background(), "hostile-peer")
	_, err := u.h.HandleHeadUpdate(ctx, u.status, &objectmessages.HeadUpdate{
		Meta:  objectmessages.ObjectMeta{PeerId: "hostile-peer", ObjectId: u.treeId, SpaceId: "space"},
		Bytes: b,
	})
	return err
}

type noQueue struct{}

func (noQueue) UpdateQueueSize(uint64, int, bool) {}

// request delivers a full-sync request message through HandleStreamRequest; responses are discarded.
func (u *headUpdater) request(b []byte) error {
	ctx := peer.CtxWithPeerId(context.Background(), "hostile-peer")
	_, err := u.h.HandleStreamRequest(ctx, objectmessages.NewByteRequest("hostile-peer", "space", u.treeId, b), noQueue{},
		func(resp proto.Message) error { return nil })
	return err
}
