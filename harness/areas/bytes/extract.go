package bytes

import (
	"fmt"
	"go/ast"
	"go/token"
	"os"
	"path/filepath"
	"strconv"
	"strings"

	"verifharness/internal/goast"
)

// extract regenerates Generated/BytesConsts.lean: the guards and constants of the hand-written
// byte-level decoders (x25519 header split, AES nonce split, ed25519 key length switch, topic
// limits, space-id separator handling, range arithmetic).
func extract(repo, out string) error {
	ok := true
	intConst := func(g *goast.File, name string) int {
		for _, d := range g.F.Decls {
			gd, isG := d.(*ast.GenDecl)
			if !isG || gd.Tok != token.CONST {
				continue
			}
			for _, sp := range gd.Specs {
				vs := sp.(*ast.ValueSpec)
				for i, n := range vs.Names {
					if n.Name == name && i < len(vs.Values) {
						if bl, isB := vs.Values[i].(*ast.BasicLit); isB && bl.Kind == token.INT {
							v, _ := strconv.Atoi(bl.Value)
							return v
						}
					}
				}
			}
		}
		ok = false
		return 0
	}
	hasStmt := func(g *goast.File, fd *ast.FuncDecl, want string) bool {
		found := false
		if fd == nil {
			return false
		}
		ast.Inspect(fd.Body, func(n ast.Node) bool {
			switch v := n.(type) {
			case *ast.IfStmt:
				if g.Str(v.Cond) == want {
					found = true
				}
			case *ast.ExprStmt, *ast.AssignStmt:
				if g.Str(v) == want {
					found = true
				}
			}
			return true
		})
		return found
	}

	// x25519.go: DecryptX25519
	gx, err := goast.Parse(filepath.Join(repo, "util/crypto/x25519.go"))
	if err != nil {
		return err
	}
	fx := gx.Fn("", "DecryptX25519")
	x25519Guard := hasStmt(gx, fx, "len(encrypted) < len(epk)") || hasStmt(gx, fx, "len(encrypted) < 32")
	if !hasStmt(gx, fx, "copy(epk[:], encrypted[:32])") || !goast.Contains(gx, fx, "var epk [32]byte") || !goast.Contains(gx, fx, "encrypted[32:]") {
		ok = false
	}

	// aes.go
	ga, err := goast.Parse(filepath.Join(repo, "util/crypto/aes.go"))
	if err != nil {
		return err
	}
	nonce, keyBytes := intConst(ga, "NonceBytes"), intConst(ga, "KeyBytes")
	fa := ga.Fn("AESKey", "DecryptReuse")
	aesGuard := hasStmt(ga, fa, "len(ciphertext) < NonceBytes")
	if fa == nil || !goast.Contains(ga, fa, "ciphertext[:NonceBytes]") || !goast.Contains(ga, fa, "ciphertext[NonceBytes:]") {
		ok = false
	}

	// ed25519.go
	ge, err := goast.Parse(filepath.Join(repo, "util/crypto/ed25519.go"))
	if err != nil {
		return err
	}
	pubGuard := hasStmt(ge, ge.Fn("", "UnmarshalEd25519PublicKey"), "len(data) != 32")
	fp := ge.Fn("", "UnmarshalEd25519PrivateKey")
	privCases := []string{}
	if fp != nil {
		ast.Inspect(fp.Body, func(n ast.Node) bool {
			if cc, isC := n.(*ast.CaseClause); isC {
				for _, e := range cc.List {
					privCases = append(privCases, ge.Str(e))
				}
				if cc.List == nil {
					privCases = append(privCases, "default")
				}
			}
			return true
		})
	}
	privShape := strings.Join(privCases, "|") == "ed25519.PrivateKeySize + ed25519.PublicKeySize|ed25519.PrivateKeySize|default"
	if !privShape {
		ok = false
	}

	// topic.go
	gt, err := goast.Parse(filepath.Join(repo, "commonspace/pubsub/topic.go"))
	if err != nil {
		return err
	}
	maxTopicLen, maxSegments := intConst(gt, "maxTopicLen"), intConst(gt, "maxSegments")
	fs := gt.Fn("", "splitTopic")
	splitShape := fs != nil && goast.Contains(gt, fs, "for n < maxSegments {") && goast.Contains(gt, fs, "return append(tsa[:n:n], rest)") &&
		goast.Contains(gt, fs, "if idx < 0 {") && goast.Contains(gt, fs, "rest = rest[idx+1:]")
	fv := gt.Fn("", "validateSegments")
	validShape := hasStmt(gt, fv, "len(topic) == 0 || len(topic) > maxTopicLen") && hasStmt(gt, fv, "len(segs) > maxSegments") && hasStmt(gt, fv, `s == ""`)
	if !splitShape || !validShape {
		ok = false
	}

	// payloads.go: the separator guard before Id[:sepIdx] / Id[sepIdx+1:]
	gp, err := goast.Parse(filepath.Join(repo, "commonspace/spacepayloads/payloads.go"))
	if err != nil {
		return err
	}
	fh := gp.Fn("", "ValidateSpaceHeader")
	sepGuard := hasStmt(gp, fh, "sepIdx == -1")
	nilGuard := hasStmt(gp, fh, "rawHeaderWithId == nil")
	if fh == nil || !goast.Contains(gp, fh, `sepIdx := strings.Index(rawHeaderWithId.Id, ".")`) {
		ok = false
	}

	// settingsstate.go: nil-safe access to the snapshot
	gs, err := goast.Parse(filepath.Join(repo, "commonspace/settings/settingsstate/settingsstate.go"))
	if err != nil {
		return err
	}
	fn := gs.Fn("", "NewStateFromSnapshot")
	snapNilSafe := fn != nil && (goast.Contains(gs, fn, "snapshot.GetDeletedIds()") || goast.Contains(gs, fn, "snapshot == nil") || goast.Contains(gs, fn, "snapshot != nil"))
	if fn != nil && !snapNilSafe && !goast.Contains(gs, fn, "snapshot.DeletedIds") {
		ok = false
	}

	// hashrange.go: the arithmetic of genTupleRanges
	gh, err := goast.Parse(filepath.Join(repo, "app/ldiff/hashrange.go"))
	if err != nil {
		return err
	}
	fg := gh.Fn("", "genTupleRanges")
	rangeShape := fg != nil && goast.Contains(gh, fg, "perRange := (to - from) / df") && goast.Contains(gh, fg, "align := ((to-from)%df + 1) % df") &&
		goast.Contains(gh, fg, "if align == 0 { perRange++ }") && goast.Contains(gh, fg, "if i == divideFactor-1 { perRange += align }") &&
		goast.Contains(gh, fg, "rangeTuple{from: j, to: j + perRange - 1}") && goast.Contains(gh, fg, "j += perRange")
	fb := gh.Fn("hashRanges", "getBottomRange")
	bottomShape := fb != nil && goast.Contains(gh, fb, "bucket := (elHash - rng.from) / perRange")
	if !rangeShape || !bottomShape {
		ok = false
	}

	// snappy.go: decoded-length guard
	gsn, err := goast.Parse(filepath.Join(repo, "net/rpc/encoding/snappy.go"))
	if err != nil {
		return err
	}
	fsn := gsn.Fn("snappyEncoding", "Unmarshal")
	snappyGuard := hasStmt(gsn, fsn, "decodedLen > maxSnappyExpansion*len(buf)")
	snappyMax := 0
	if snappyGuard {
		snappyMax = intConst(gsn, "maxSnappyExpansion")
	}
	if fsn == nil || !goast.Contains(gsn, fsn, "slices.Grow(unmarshalBuf.buf, decodedLen)[:decodedLen]") {
		ok = false
	}

	var b strings.Builder
	b.WriteString("-- GENERATED by `verifharness extract` from /repo (util/crypto, commonspace/pubsub, spacepayloads, settingsstate, app/ldiff) — do not edit\n")
	b.WriteString("namespace AnySync.Generated.Bytes\n")
	fmt.Fprintf(&b, "def shapeOk : Bool := %s\n", goast.LeanBool(ok))
	fmt.Fprintf(&b, "/-- DecryptX25519 checks the length before `encrypted[:32]` -/\ndef x25519LenGuard : Bool := %s\n", goast.LeanBool(x25519Guard))
	fmt.Fprintf(&b, "def x25519Header : Nat := 32\n")
	fmt.Fprintf(&b, "/-- DecryptReuse: `len(ciphertext) < NonceBytes` -/\ndef aesLenGuard : Bool := %s\ndef nonceBytes : Nat := %d\ndef keyBytes : Nat := %d\n", goast.LeanBool(aesGuard), nonce, keyBytes)
	fmt.Fprintf(&b, "/-- UnmarshalEd25519PublicKey: `len(data) != 32` -/\ndef edPubLenGuard : Bool := %s\n", goast.LeanBool(pubGuard))
	fmt.Fprintf(&b, "/-- UnmarshalEd25519PrivateKey: switch on 96 | 64 | default -/\ndef edPrivSwitchShape : Bool := %s\n", goast.LeanBool(privShape))
	fmt.Fprintf(&b, "def maxTopicLen : Nat := %d\ndef maxSegments : Nat := %d\n", maxTopicLen, maxSegments)
	fmt.Fprintf(&b, "/-- ValidateSpaceHeader: `sepIdx == -1` guard before the two slicings; nil header guard -/\ndef spaceIdSepGuard : Bool := %s\ndef spaceHeaderNilGuard : Bool := %s\n", goast.LeanBool(sepGuard), goast.LeanBool(nilGuard))
	fmt.Fprintf(&b, "/-- NewStateFromSnapshot tolerates a nil snapshot -/\ndef settingsSnapshotNilSafe : Bool := %s\n", goast.LeanBool(snapNilSafe))
	fmt.Fprintf(&b, "/-- genTupleRanges / getBottomRange arithmetic has the modelled shape -/\ndef rangeArithShape : Bool := %s\n", goast.LeanBool(rangeShape && bottomShape))
	fmt.Fprintf(&b, "/-- snappyEncoding.Unmarshal rejects `decodedLen > maxSnappyExpansion*len(buf)` before growing its buffer -/\ndef snappyLenGuard : Bool := %s\ndef maxSnappyExpansion : Nat := %d\n", goast.LeanBool(snappyGuard), snappyMax)
	b.WriteString("end AnySync.Generated.Bytes\n")
	return os.WriteFile(filepath.Join(out, "BytesConsts.lean"), []byte(b.String()), 0o644)
}
