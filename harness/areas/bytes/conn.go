package bytes

import (
	"io"
	"net"
	"sync"
	"time"
)

// memConn feeds a fixed byte string to the handshake code and then goes silent (the peer neither
// sends more nor closes); writes are discarded.
type memConn struct {
	mu      sync.Mutex
	in      []byte
	closed  bool
	waiting bool
	maxReq  int
	wake    chan struct{}
}

func newMemConn(in []byte) *memConn { return &memConn{in: in, wake: make(chan struct{})} }

func (c *memConn) Read(p []byte) (int, error) {
	c.mu.Lock()
	if len(p) > c.maxReq {
		c.maxReq = len(p)
	}
	if c.closed {
		c.mu.Unlock()
		return 0, io.ErrClosedPipe
	}
	if len(p) == 0 {
		c.mu.Unlock()
		return 0, nil
	}
	if len(c.in) > 0 {
		n := copy(p, c.in)
		c.in = c.in[n:]
		c.mu.Unlock()
		return n, nil
	}
	c.waiting = true
	c.mu.Unlock()
	<-c.wake
	return 0, io.ErrClosedPipe
}

func (c *memConn) Write(p []byte) (int, error) {
	c.mu.Lock()
	defer c.mu.Unlock()
	if c.closed {
		return 0, io.ErrClosedPipe
	}
	return len(p), nil
}

func (c *memConn) Close() error {
	c.mu.Lock()
	defer c.mu.Unlock()
	if !c.closed {
		c.closed = true
		close(c.wake)
	}
	return nil
}

// net.Conn surface needed by the proto handshake
func (c *memConn) LocalAddr() net.Addr                { return netAddr{} }
func (c *memConn) RemoteAddr() net.Addr               { return netAddr{} }
func (c *memConn) SetDeadline(t time.Time) error      { return nil }
func (c *memConn) SetReadDeadline(t time.Time) error  { return nil }
func (c *memConn) SetWriteDeadline(t time.Time) error { return nil }

type netAddr struct{}

func (netAddr) Network() string { return "mem" }
func (netAddr) String() string  { return "mem" }

func (c *memConn) waitParkedOrClosed() {
	for i := 0; i < 2000000; i++ {
		c.mu.Lock()
		done := c.closed || (c.waiting && len(c.in) == 0)
		c.mu.Unlock()
		if done {
			return
		}
		time.Sleep(20 * time.Microsecond)
	}
}
