package bytes

// Sequences on a VERIFYING tree: real change builder (real signatures, CIDs), real validator over a
// real ACL, real storage. A peer's batch that is structurally fine but refused by the validator
// (author without write permission, unknown ACL head, missing read key) exercises the rollback
// paths; what matters for C11 is the process afterwards, so every step — refused or not — is
// followed by the benign probes (lock + iterate, a valid change from a peer, a local AddContent).

import (
	"context"
	"fmt"
	"strings"
	"sync/atomic"

	"github.com/anyproto/any-sync/commonspace/headsync/headstorage"
	"github.com/anyproto/any-sync/commonspace/object/accountdata"
	"github.com/anyproto/any-sync/commonspace/object/tree/objecttree"
	"github.com/anyproto/any-sync/commonspace/object/tree/treechangeproto"
	"github.com/anyproto/any-sync/util/crypto"
)

type addSeqSetter interface{ SetAddSeq(*atomic.Uint64) }

func (w *world) verifTreeSequence(f *treeFixture, scripted int, viaHandler bool) {
	r := w.r
	ctx := context.Background()
	owner, outsider := w.keys, w.other
	aclHead := f.acl.Head().Id
	f.treeNo++
	cb0 := objecttree.NewChangeBuilder(crypto.NewKeyStorage(), nil)
	_, root, err := cb0.BuildRoot(objecttree.InitialContent{AclHeadId: aclHead, PrivKey: owner.SignKey, SpaceId: "s",
		Seed: []byte(fmt.Sprintf("seed%d-%d", f.treeNo, r.Intn(1<<30))), ChangeType: "t", Timestamp: int64(f.treeNo)})
	if err != nil {
		w.r.Fatal("verifying tree root: " + err.Error())
	}
	hs, err := headstorage.New(ctx, f.db)
	if err != nil {
		w.r.Fatal("headstorage: " + err.Error())
	}
	objecttree.StorageChangeBuilder = objecttree.NewChangeBuilder
	st, err := objecttree.CreateStorage(ctx, root, hs, f.db)
	if err != nil {
		w.r.Fatal("verifying tree storage: " + err.Error())
	}
	if s, ok := st.(addSeqSetter); ok {
		s.SetAddSeq(&atomic.Uint64{})
	}
	tr, err := objecttree.BuildObjectTree(st, f.acl)
	if err != nil {
		w.r.Fatal("verifying tree: " + err.Error())
	}
	builder := objecttree.NewChangeBuilder(crypto.NewKeyStorage(), root)
	ts := int64(100)
	mk := func(kind string, prev []string, snap string) (*treechangeproto.RawTreeChangeWithId, string) {
		ts++
		bc := objecttree.BuilderContent{TreeHeadIds: append([]string{}, prev...), AclHeadId: aclHead, SnapshotBaseId: snap,
			Unencrypted: true, PrivKey: owner.SignKey, Content: []byte(fmt.Sprint("d", ts)), Timestamp: ts, DataType: "t"}
		switch kind {
		case "no-permission":
			bc.PrivKey = outsider.SignKey
		case "unknown-acl-head":
			bc.AclHeadId = "bafyreinosuchaclrecord"
		case "missing-read-key":
			bc.Unencrypted, bc.ReadKeyId, bc.ReadKey = false, "nosuchkey", crypto.NewAES()
		case "snapshot":
			bc.IsSnapshot = true
		case "dangling":
			bc.TreeHeadIds = append(bc.TreeHeadIds, "bafyreighostparent")
		}
		_, raw, err := builder.Build(bc)
		if err != nil {
			w.r.Fatal("build change: " + err.Error())
		}
		return raw, fmt.Sprintf("%s(%s)", kind, short(raw.Id))
	}
	heads := func() []string { return append([]string{}, tr.Heads()...) }
	snapBase := func() string { return tr.Root().Id }
	var trace []string
	if viaHandler {
		trace = append(trace, "via HandleHeadUpdate")
	}
	deliver := func(raws []*treechangeproto.RawTreeChangeWithId, names []string) (error, any, bool) {
		hd := []string{raws[len(raws)-1].Id}
		trace = append(trace, "add["+strings.Join(names, " ")+"]")
		if viaHandler {
			b := newHeadUpdater(tr, root.Id, root).encode(hd, raws, nil)
			return guarded(func() error { return newHeadUpdater(tr, root.Id, root).deliver(b) })
		}
		return guarded(func() error {
			tr.Lock()
			defer tr.Unlock()
			_, err := tr.AddRawChanges(ctx, objecttree.RawChangesPayload{NewHeads: hd, RawChanges: raws})
			return err
		})
	}
	probes := func() bool {
		validAdd := func() error {
			tr.Lock()
			hd, sb := heads(), snapBase()
			tr.Unlock()
			raw, _ := mk("valid", hd, sb)
			tr.Lock()
			defer tr.Unlock()
			_, err := tr.AddRawChanges(ctx, objecttree.RawChangesPayload{NewHeads: []string{raw.Id}, RawChanges: []*treechangeproto.RawTreeChangeWithId{raw}})
			return err
		}
		local := func() error {
			tr.Lock()
			defer tr.Unlock()
			ts++
			_, err := tr.AddContent(ctx, objecttree.SignableChangeContent{Data: []byte("local"), Key: owner.SignKey, Timestamp: ts, DataType: "t"})
			return err
		}
		var va, lo func() error
		switch r.Intn(3) {
		case 0:
			va = validAdd
		case 1:
			lo = local
		default:
			va, lo = validAdd, local
		}
		if scripted != 0 {
			va, lo = validAdd, local
			if scripted%2 == 0 {
				va, lo = nil, local // the local write first: it must not depend on a peer's valid change having repaired anything
			}
		}
		return w.treeProbes("vtree.sequence", tr, &trace, va, lo)
	}
	refusedKinds := []string{"no-permission", "unknown-acl-head", "missing-read-key"}
	steps := 3 + r.Intn(5)
	if scripted != 0 {
		steps = 3
	}
	for i := 0; i < steps; i++ {
		var raws []*treechangeproto.RawTreeChangeWithId
		var names []string
		tr.Lock()
		hd, sb := heads(), snapBase()
		tr.Unlock()
		add := func(kind string, prev []string) *treechangeproto.RawTreeChangeWithId {
			raw, n := mk(kind, prev, sb)
			raws, names = append(raws, raw), append(names, n)
			return raw
		}
		switch {
		case scripted != 0 && i == 0:
			add("valid", hd)
		case scripted != 0 && i == 1:
			// a structurally valid batch the validator refuses: one refused change / a valid change followed by a refused one
			k := refusedKinds[(scripted-1)/2%len(refusedKinds)]
			if scripted > 6 {
				v := add("valid", hd)
				add(k, []string{v.Id})
			} else {
				add(k, hd)
			}
		case scripted != 0:
			add("valid", hd)
		default:
			switch k := r.Intn(10); {
			case k < 3:
				add("valid", hd)
			case k < 4:
				add("snapshot", hd)
			case k < 7:
				add(refusedKinds[r.Intn(len(refusedKinds))], hd)
			case k < 8: // valid then refused on top of it, one batch
				v := add("valid", hd)
				add(refusedKinds[r.Intn(len(refusedKinds))], []string{v.Id})
			case k < 9: // refused then valid on top of it
				v := add(refusedKinds[r.Intn(len(refusedKinds))], hd)
				add("valid", []string{v.Id})
			default:
				add("dangling", hd)
			}
		}
		err, pan, hung := deliver(raws, names)
		if w.seqVerdict("vtree.sequence.add", trace, pan, hung) {
			return
		}
		w.r.Count("vtree.seq.add." + cls(err))
		if r.Chance(25) {
			if w.hostileRequest("vtree.sequence", tr, root.Id, root, &trace) {
				return
			}
		}
		if probes() {
			return
		}
	}
	w.r.Case("vtreeseq "+strings.Join(trace, " ; "), true)
	w.r.Count(fmt.Sprintf("vtree.seq.script%d", scripted))
}

func short(id string) string {
	if len(id) > 8 {
		return id[len(id)-8:]
	}
	return id
}

var _ = accountdata.AccountKeys{}
