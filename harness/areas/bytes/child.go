package bytes

// Isolation: some entry points can take the whole process down in a way recover() cannot stop — a
// panic in a goroutine the library itself started (the handshake wrappers), a fatal out-of-memory
// after a peer-sized allocation. Their inputs are executed in a CHILD process (this same binary,
// area "bytes-child", same setup), one line in / one line out; when the child dies or stops
// answering, the parent reports the input as a violation (with the first lines of the crash) and
// starts a fresh child.

import (
	"bufio"
	"bytes"
	"encoding/hex"
	"fmt"
	"io"
	"os"
	"os/exec"
	"runtime"
	"strings"
	"sync"
	"time"

	"verifharness/internal/corr"
)

func init() { corr.RegisterArea("bytes-child", RunChild) }

// RunChild serves "<target> <hex|->" lines on stdin until EOF.
func RunChild(r *corr.Run) {
	w := &world{r: r}
	w.setup()
	defer os.RemoveAll(w.tmp)
	byName := map[string]*target{}
	for _, t := range w.targets {
		byName[t.name] = t
	}
	in := bufio.NewReaderSize(os.Stdin, 1<<22)
	out := bufio.NewWriter(os.Stdout)
	fmt.Fprintln(out, "ready")
	out.Flush()
	for {
		line, err := in.ReadString('\n')
		if err != nil {
			return
		}
		f := strings.Fields(line)
		if len(f) != 2 || byName[f[0]] == nil {
			fmt.Fprintln(out, "bad-request")
			out.Flush()
			continue
		}
		var data []byte
		if f[1] != "-" {
			data, _ = hex.DecodeString(f[1])
		}
		var m0, m1 runtime.MemStats
		runtime.ReadMemStats(&m0)
		res := "ok"
		func() {
			defer func() {
				if p := recover(); p != nil {
					res = "panic " + strings.ReplaceAll(firstLine(fmt.Sprint(p)), " ", "_")
				}
			}()
			if e := byName[f[0]].run(data); e != nil {
				res = "err"
			}
		}()
		runtime.ReadMemStats(&m1)
		fmt.Fprintf(out, "%s %d\n", res, m1.TotalAlloc-m0.TotalAlloc)
		out.Flush()
	}
}

type childProc struct {
	cmd    *exec.Cmd
	stdin  io.WriteCloser
	stdout *bufio.Reader
	stderr *tailBuf
	outDir string
}

type tailBuf struct {
	mu sync.Mutex
	b  bytes.Buffer
}

func (t *tailBuf) Write(p []byte) (int, error) {
	t.mu.Lock()
	defer t.mu.Unlock()
	if t.b.Len() > 1<<16 {
		t.b.Reset()
	}
	return t.b.Write(p)
}

func (t *tailBuf) head() string {
	t.mu.Lock()
	defer t.mu.Unlock()
	s := t.b.String()
	// the interesting part of a Go crash: the first line(s) ("panic: …", "fatal error: …") and the first frame
	lines := strings.Split(s, "\n")
	var keep []string
	for _, l := range lines {
		if strings.HasPrefix(l, "panic:") || strings.HasPrefix(l, "fatal error:") || strings.Contains(l, "[signal") || (len(keep) > 0 && len(keep) < 6 && strings.TrimSpace(l) != "") {
			keep = append(keep, strings.TrimSpace(l))
		}
	}
	if len(keep) == 0 && len(s) > 300 {
		return s[:300]
	}
	if len(keep) == 0 {
		return s
	}
	return strings.Join(keep, " | ")
}

func (w *world) startChild() *childProc {
	dir, _ := os.MkdirTemp("", "verif-bytes-child-*")
	c := &childProc{outDir: dir, stderr: &tailBuf{}}
	c.cmd = exec.Command(os.Args[0], "corr", "bytes-child", "-seed", fmt.Sprint(w.r.Seed), "-out", dir, "-model", "none")
	c.cmd.Stderr = c.stderr
	c.cmd.Env = append(os.Environ(), "GOMEMLIMIT=2GiB")
	var err error
	if c.stdin, err = c.cmd.StdinPipe(); err != nil {
		w.r.Fatal("child stdin: " + err.Error())
	}
	so, err := c.cmd.StdoutPipe()
	if err != nil {
		w.r.Fatal("child stdout: " + err.Error())
	}
	c.stdout = bufio.NewReaderSize(so, 1<<16)
	if err = c.cmd.Start(); err != nil {
		w.r.Fatal("child start: " + err.Error())
	}
	if l, err := c.readLine(2 * guard); err != nil || strings.TrimSpace(l) != "ready" {
		w.r.Fatal("child does not come up: " + c.stderr.head())
	}
	return c
}

func (c *childProc) readLine(limit time.Duration) (string, error) {
	type res struct {
		s   string
		err error
	}
	ch := make(chan res, 1)
	go func() {
		s, err := c.stdout.ReadString('\n')
		ch <- res{s, err}
	}()
	select {
	case r := <-ch:
		return r.s, r.err
	case <-time.After(limit):
		return "", fmt.Errorf("timeout")
	}
}

func (c *childProc) stop() {
	if c == nil {
		return
	}
	c.stdin.Close()
	done := make(chan struct{})
	go func() { c.cmd.Wait(); close(done) }()
	select {
	case <-done:
	case <-time.After(3 * time.Second):
		c.cmd.Process.Kill()
		<-done
	}
	os.RemoveAll(c.outDir)
}

// executeIsolated runs one input of an isolated target in the child.
func (w *world) executeIsolated(t *target, in []byte) (o outcome, crash string) {
	if w.child == nil {
		w.child = w.startChild()
	}
	c := w.child
	h := "-"
	if len(in) > 0 {
		h = hex.EncodeToString(in)
	}
	if _, err := fmt.Fprintf(c.stdin, "%s %s\n", t.name, h); err != nil {
		crash = "child gone before the input was sent: " + c.stderr.head()
	} else {
		line, err := c.readLine(guard)
		switch {
		case err != nil && err.Error() == "timeout":
			o.hung = true
			c.cmd.Process.Kill()
		case err != nil:
			c.cmd.Wait()
			crash = c.stderr.head()
			if crash == "" {
				crash = "process exited: " + c.cmd.ProcessState.String()
			}
		default:
			f := strings.Fields(line)
			if len(f) >= 2 {
				fmt.Sscan(f[len(f)-1], &o.alloc)
			}
			switch {
			case strings.HasPrefix(line, "panic"):
				o.pan = strings.ReplaceAll(f[1], "_", " ")
			case strings.HasPrefix(line, "err"):
				o.err = fmt.Errorf("rejected")
			}
			return o, ""
		}
	}
	// the child is unusable: replace it
	c.stop()
	w.child = nil
	return o, crash
}
