package store

import (
	"fmt"
	"math/big"
	"sort"
	"strconv"
	"strings"

	"github.com/anyproto/any-sync/commonspace/object/tree/objecttree"
)

// Correspondence with the Lean model (lean/AnySyncModel/Store/Tx.lean, driver Driver/Store.lean).
//
// For every operation the harness sends what the real code handed to the storage layer (tree id,
// the changes given to AddAll in their order with parents / snapshot base / order id, the heads, the
// common snapshot; the ACL record with its predecessor and order). The model answers with the trace
// of storage calls its generator `traceOf` emits — compared with the trace the wrapping anystore.DB
// recorded from the real code (translation validation of the call sequence) — and, for every
// boundary k, with the durable state its transaction semantics leaves after a crash there —
// compared with the real crash image, document by document. After the operation the model's
// committed store must equal the real database, and the model's `consistentB` must agree with the
// Go oracle's verdict.

type modelOp struct {
	kind   string
	tree   string
	rec    string
	dups   []string // noerror-add: ids in the batch that are stored already
	queued bool     // tree-create-child: the parent is queued for deletion
}

const orderWidth = 48

// embedOrder maps a lexid order id order-preservingly into a natural number (big-endian, right-padded).
func embedOrder(o string) (string, bool) {
	if len(o) > orderWidth {
		return "", false
	}
	b := make([]byte, orderWidth)
	copy(b, o)
	return new(big.Int).SetBytes(b).String(), true
}

func (rn *runner) modelLine(op *opSpec, post *Dump) (string, bool) {
	in := rn.fx.in
	m := op.model
	changeDoc := func(id string) (rawDoc, bool) {
		for _, c := range post.Colls[objecttree.CollName] {
			if c.Id == id {
				return c, true
			}
		}
		return rawDoc{}, false
	}
	headsDoc := func(id string) (rawDoc, bool) {
		for _, h := range post.Colls["heads"] {
			if h.Id == id {
				return h, true
			}
		}
		return rawDoc{}, false
	}
	switch m.kind {
	case "space-create":
		return "op space-create 0 1 2", true
	case "tree-create":
		return "op tree-create " + in.get(m.tree), true
	case "tree-delete":
		return "op tree-delete " + in.get(m.tree), true
	case "tree-create-child":
		q := "0"
		if m.queued {
			q = "1"
		}
		return "op tree-create-child " + in.get(m.tree) + " " + q, true
	case "acl-add":
		for _, r := range post.Colls[rn.fx.aclId] {
			if r.Id == m.rec {
				prev := "-"
				if p := str(r.V["p"]); p != "" {
					prev = in.get(p)
				}
				return fmt.Sprintf("op acl-add 1 %s %s %d", in.get(m.rec), prev, num(r.V["o"])), true
			}
		}
		return "", false
	default: // everything that ends in storage.AddAll
		h, ok := headsDoc(m.tree)
		if !ok {
			return "", false
		}
		var chs []string
		for _, id := range op.added {
			c, ok := changeDoc(id)
			if !ok {
				return "", false
			}
			prevs := "-"
			if ps := strs(c.V["p"]); len(ps) > 0 {
				x := make([]string, len(ps))
				for i, p := range ps {
					x[i] = in.get(p)
				}
				prevs = strings.Join(x, ".")
			}
			snap := "-"
			if sn := str(c.V["i"]); sn != "" {
				snap = in.get(sn)
			}
			o, ok := embedOrder(str(c.V[objecttree.OrderKey]))
			if !ok {
				return "", false
			}
			chs = append(chs, fmt.Sprintf("%s/%s/%s/%s", in.get(id), prevs, snap, o))
		}
		chl := "-"
		if len(chs) > 0 {
			chl = strings.Join(chs, ";")
		}
		verb := "addall"
		if m.kind == "tree-create-deferred" {
			verb = "deferred"
		}
		if m.kind == "noerror-add" {
			dl := make([]string, len(m.dups))
			for i, d := range m.dups {
				dl[i] = in.get(d)
			}
			ds := "-"
			if len(dl) > 0 {
				ds = strings.Join(dl, ",")
			}
			verb = "addall-noerror " + in.get(m.tree) + " " + ds
			hs := make([]string, len(op.heads))
			for i, x := range op.heads {
				hs[i] = in.get(x)
			}
			return fmt.Sprintf("op %s %s %s %s", verb, strings.Join(hs, ","), in.get(str(h.V["s"])), chl), true
		}
		heads := make([]string, len(op.heads))
		for i, x := range op.heads {
			heads[i] = in.get(x)
		}
		return fmt.Sprintf("op %s %s %s %s %s", verb, in.get(m.tree), strings.Join(heads, ","), in.get(str(h.V["s"])), chl), true
	}
}

// modelDigest renders a real database state exactly as Driver/Store.lean's `digest` renders the
// model's store.
func (d *Dump) modelDigest(fx *Fixture) string {
	in := fx.in
	var out []string
	for n, idx := range d.Idx {
		out = append(out, fmt.Sprintf("#%s/%d", fx.collName(n), len(idx)))
	}
	byTree := map[string][]string{}
	for _, c := range d.Colls[objecttree.CollName] {
		t := str(c.V[objecttree.TreeKey])
		byTree[t] = append(byTree[t], str(c.V[objecttree.OrderKey]))
	}
	for _, c := range d.Colls[objecttree.CollName] {
		t := str(c.V[objecttree.TreeKey])
		rank := 0
		for _, o := range byTree[t] {
			if o < str(c.V[objecttree.OrderKey]) {
				rank++
			}
		}
		prevs := "-"
		if ps := strs(c.V["p"]); len(ps) > 0 {
			x := make([]string, len(ps))
			for i, p := range ps {
				x[i] = in.get(p)
			}
			prevs = strings.Join(x, ".")
		}
		out = append(out, fmt.Sprintf("changes:%s@t%s/p%s/s%s/o%d", in.get(c.Id), in.get(t), prevs, in.get(str(c.V["i"])), rank))
	}
	for _, h := range d.Colls["heads"] {
		hs := strs(h.V["h"])
		ns := make([]int, len(hs))
		for i, x := range hs {
			ns[i], _ = strconv.Atoi(in.get(x))
		}
		sort.Ints(ns)
		x := make([]string, len(ns))
		for i, n := range ns {
			x[i] = strconv.Itoa(n)
		}
		hl := "-"
		if len(x) > 0 {
			hl = strings.Join(x, ".")
		}
		out = append(out, fmt.Sprintf("heads:%s=%s/%s", in.get(h.Id), hl, in.get(str(h.V["s"]))))
	}
	for _, r := range d.Colls[fx.aclId] {
		out = append(out, fmt.Sprintf("acl:%s@%d/%s", in.get(r.Id), num(r.V["o"]), in.get(str(r.V["p"]))))
	}
	for _, s := range d.Colls["state"] {
		out = append(out, "state:"+in.get(s.Id))
	}
	sort.Strings(out)
	if len(out) == 0 {
		return "empty"
	}
	return strings.Join(out, ",")
}

// checkModel: trace shape, post-crash state at every boundary, post-state and Consistent verdict.
type imgState struct {
	k             int
	label, digest string
}

func (rn *runner) checkModel(op *opSpec, trace string, evs []Event, states []imgState, post *Dump) {
	r := rn.r
	line, ok := rn.modelLine(op, post)
	if !ok {
		rn.fatal("cannot describe operation to the model: " + op.desc)
	}
	ops := append(append([]string{}, rn.modelOps...), line)
	rn.modelOps = ops
	ans := r.Ask(line)
	r.Count("model.op")
	batch := "-"
	if strings.HasPrefix(line, "op addall ") || strings.HasPrefix(line, "op deferred ") || strings.HasPrefix(line, "op addall-noerror ") {
		batch = "1" // the real input must satisfy the theorems' input condition
	}
	if !r.Check(prop, "trace", ops, ans, trace+" | single=1 batch="+batch) {
		rn.dead = true
		return
	}
	for _, st := range states {
		q := fmt.Sprintf("crash %d", st.k)
		ans := r.Ask(q)
		r.Count("model.crash")
		want := st.label + " " + st.digest
		if strings.HasPrefix(ans, "same ") {
			// the model's pre- and post-state coincide (a batch that attached nothing): the real states
			// differ only in the add-sequence field, which the model does not carry
			want = "same " + st.digest
		}
		if !r.Check(prop, "crash-state", append(append([]string{}, ops...), q), ans, want) {
			rn.dead = true
			return
		}
	}
	rn.pendingApply = true
}

// checkModelFaults: for every faulted call k the model's `execFault` state must be the pre-state the
// real code was found in; then the operation is committed in the model and the post-state compared.
func (rn *runner) checkModelFaults(op *opSpec, faults map[int]string) {
	r := rn.r
	ks := make([]int, 0, len(faults))
	for k := range faults {
		ks = append(ks, k)
	}
	sort.Ints(ks)
	for _, k := range ks {
		q := fmt.Sprintf("fault %d", k)
		ans := r.Ask(q)
		r.Count("model.fault")
		if !r.Check(prop, "fault-state", append(append([]string{}, rn.modelOps...), q), ans, "pre "+faults[k]) {
			rn.dead = true
			return
		}
	}
}

// applyModel commits the last operation in the model and compares the post-state and the verdict of
// the model's `consistentB` with the real database and the Go oracle.
func (rn *runner) applyModel(post *Dump) {
	if !rn.pendingApply {
		return
	}
	rn.pendingApply = false
	ans := rn.r.Ask("apply")
	if !rn.r.Check(prop, "post-state", append(append([]string{}, rn.modelOps...), "apply"), ans, post.modelDigest(rn.fx)+" consistent=1") {
		rn.dead = true
	}
}
