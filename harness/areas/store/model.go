package store

// modelOp is the operation as the Lean model's trace generator sees it (filled in stage 2).
type modelOp struct {
	kind string
	tree string
	rec  string
}

func (rn *runner) checkModel(op *opSpec, trace string, evs []Event, states []string) {}
