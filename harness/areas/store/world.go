package store

import (
	"context"
	"crypto/sha256"
	"encoding/hex"
	"encoding/json"
	"fmt"
	"io"
	"os"
	"path/filepath"
	"sort"
	"strings"
	"sync"

	anystore "github.com/anyproto/any-store"

	"github.com/anyproto/any-sync/commonspace/object/accountdata"
	"github.com/anyproto/any-sync/commonspace/object/acl/list"
	"github.com/anyproto/any-sync/commonspace/object/acl/recordverifier"
	"github.com/anyproto/any-sync/commonspace/object/tree/objecttree"
	"github.com/anyproto/any-sync/commonspace/spacepayloads"
	"github.com/anyproto/any-sync/commonspace/spacestorage"
	"github.com/anyproto/any-sync/util/crypto"
)

var ctx = context.Background()

const dbFile = "store.db"

// Fixture is what is fixed for one workload: the owner's keys, the space payload, a temp root.
type Fixture struct {
	keys       *accountdata.AccountKeys
	payload    spacestorage.SpaceStorageCreatePayload
	spaceId    string
	aclId      string
	settingsId string
	tmp        string
	nDir       int
	mu         sync.Mutex
	in         *interner
}

func newFixture() (*Fixture, error) {
	keys, err := accountdata.NewRandom()
	if err != nil {
		return nil, err
	}
	master, _, err := crypto.GenerateRandomEd25519KeyPair()
	if err != nil {
		return nil, err
	}
	meta, _, err := crypto.GenerateRandomEd25519KeyPair()
	if err != nil {
		return nil, err
	}
	payload, err := spacepayloads.StoragePayloadForSpaceCreate(spacepayloads.SpaceCreatePayload{
		SigningKey:     keys.SignKey,
		SpaceType:      "verif",
		ReplicationKey: 7,
		MasterKey:      master,
		ReadKey:        crypto.NewAES(),
		MetadataKey:    meta,
		Metadata:       []byte("meta"),
	})
	if err != nil {
		return nil, err
	}
	// a memory-backed directory when there is one: thousands of databases are opened and closed per
	// run and every close checkpoints with fsync; the crash images are file copies either way
	tmp, err := os.MkdirTemp("/dev/shm", "verif-store-*")
	if err != nil {
		tmp, err = os.MkdirTemp("", "verif-store-*")
	}
	if err != nil {
		return nil, err
	}
	fx := &Fixture{
		keys:       keys,
		payload:    payload,
		spaceId:    payload.SpaceHeaderWithId.Id,
		aclId:      payload.AclWithId.Id,
		settingsId: payload.SpaceSettingsWithId.Id,
		tmp:        tmp,
		in:         newInterner(),
	}
	// ids are content hashes: interned to small numbers (0 = space, 1 = ACL, 2 = settings tree, then by
	// first appearance) for messages and for the model
	fx.in.fix(fx.spaceId, "0")
	fx.in.fix(fx.aclId, "1")
	fx.in.fix(fx.settingsId, "2")
	fx.in.n = 2
	return fx, nil
}

func (fx *Fixture) cleanup() { os.RemoveAll(fx.tmp) }

func (fx *Fixture) newDir(tag string) string {
	fx.mu.Lock()
	fx.nDir++
	n := fx.nDir
	fx.mu.Unlock()
	d := filepath.Join(fx.tmp, fmt.Sprintf("%s%d", tag, n))
	os.MkdirAll(d, 0o755)
	return d
}

// collName interns collection names: the ACL's collection is named by the ACL id.
func (fx *Fixture) collName(n string) string {
	if n == fx.aclId {
		return "acl"
	}
	return n
}

// interner maps real ids (content hashes) to small stable names in order of first appearance.
type interner struct {
	mu sync.Mutex
	m  map[string]string
	n  int
}

func newInterner() *interner { return &interner{m: map[string]string{}} }

func (i *interner) fix(id, name string) { i.m[id] = name }

func (i *interner) get(id string) string {
	if id == "" {
		return "_"
	}
	i.mu.Lock()
	defer i.mu.Unlock()
	if s, ok := i.m[id]; ok {
		return s
	}
	i.n++
	s := fmt.Sprintf("%d", i.n)
	i.m[id] = s
	return s
}

func (i *interner) list(ids []string) string {
	if len(ids) == 0 {
		return "-"
	}
	o := make([]string, len(ids))
	for k, id := range ids {
		o[k] = i.get(id)
	}
	return strings.Join(o, ",")
}

// World is one opened database with the live any-sync objects built over it.
type World struct {
	fx    *Fixture
	dir   string
	real  anystore.DB
	db    *wrapDB     // nil when opened plain (crash images, generator replicas)
	store anystore.DB // what any-sync is given
	ss    spacestorage.SpaceStorage
	acl   list.AclList
	trees map[string]objecttree.ObjectTree
	hung  bool // a storage call never returned: the handle cannot be closed any more
}

func anystoreConfig() *anystore.Config {
	// the global page cache stays preallocated (any-store's default): without it every page of every
	// short-lived connection is mmapped and unmapped separately
	return &anystore.Config{ReadConnections: 2}
}

func (fx *Fixture) open(dir string, wrapped bool) (*World, error) {
	real, err := anystore.Open(ctx, filepath.Join(dir, dbFile), anystoreConfig())
	if err != nil {
		return nil, fmt.Errorf("open %s: %w", dir, err)
	}
	w := &World{fx: fx, dir: dir, real: real, store: real, trees: map[string]objecttree.ObjectTree{}}
	if wrapped {
		w.db = newWrapDB(real)
		w.store = w.db
	}
	return w, nil
}

// attach opens the space with the real constructors (spacestorage.New, BuildAclListWithIdentity).
func (w *World) attach() error {
	ss, err := spacestorage.New(ctx, w.fx.spaceId, w.store)
	if err != nil {
		return fmt.Errorf("spacestorage.New: %w", err)
	}
	w.ss = ss
	aclSt, err := ss.AclStorage()
	if err != nil {
		return err
	}
	acl, err := list.BuildAclListWithIdentity(w.fx.keys, aclSt, recordverifier.NewValidateFull())
	if err != nil {
		return fmt.Errorf("BuildAclListWithIdentity: %w", err)
	}
	w.acl = acl
	return nil
}

func (w *World) close() {
	if w.real != nil && !w.hung {
		w.real.Close()
		w.real = nil
	}
}

// reopenHandle closes the database handle and opens the same files again (a fresh process).
func (w *World) reopenHandle() error {
	w.close()
	n, err := w.fx.open(w.dir, w.db != nil)
	if err != nil {
		return err
	}
	*w = *n
	return nil
}

// tree returns the live tree, building it from storage with the real constructors if needed.
func (w *World) tree(id string) (objecttree.ObjectTree, error) {
	if t, ok := w.trees[id]; ok {
		return t, nil
	}
	st, err := w.ss.TreeStorage(ctx, id)
	if err != nil {
		return nil, fmt.Errorf("TreeStorage: %w", err)
	}
	t, err := objecttree.BuildObjectTree(st, w.acl)
	if err != nil {
		return nil, fmt.Errorf("BuildObjectTree: %w", err)
	}
	w.trees[id] = t
	return t, nil
}

// copyImage copies the database files (main file and WAL; the shared-memory index and lock files are
// per-process state and are rebuilt by SQLite's recovery on open) — what a killed process leaves behind.
func copyImage(srcDir, dstDir string) error {
	if err := os.MkdirAll(dstDir, 0o755); err != nil {
		return err
	}
	ents, err := os.ReadDir(srcDir)
	if err != nil {
		return err
	}
	for _, e := range ents {
		n := e.Name()
		if e.IsDir() || strings.HasSuffix(n, "-shm") || strings.HasSuffix(n, ".lock") {
			continue
		}
		if err := copyFile(filepath.Join(srcDir, n), filepath.Join(dstDir, n)); err != nil {
			return err
		}
	}
	return nil
}

func copyFile(src, dst string) error {
	in, err := os.Open(src)
	if err != nil {
		return err
	}
	defer in.Close()
	out, err := os.Create(dst)
	if err != nil {
		return err
	}
	if _, err = io.Copy(out, in); err != nil {
		out.Close()
		return err
	}
	return out.Close()
}

// imageHash identifies an image by the bytes of its files (identical bytes reopen identically).
func imageHash(dir string) string {
	ents, _ := os.ReadDir(dir)
	h := sha256.New()
	for _, e := range ents {
		if e.IsDir() {
			continue
		}
		b, _ := os.ReadFile(filepath.Join(dir, e.Name()))
		fmt.Fprintf(h, "%s:%d:", e.Name(), len(b))
		h.Write(b)
	}
	return hex.EncodeToString(h.Sum(nil))
}

// ---------------------------------------------------------------------------------------------
// durable state as found in a database: every collection, every document, every index name

type rawDoc struct {
	Coll string
	Id   string
	V    map[string]any
}

type Dump struct {
	Colls map[string][]rawDoc // sorted by id
	Idx   map[string][]string
	lines []string
}

func dumpDB(db anystore.DB, fx *Fixture) (*Dump, error) {
	names, err := db.GetCollectionNames(ctx)
	if err != nil {
		return nil, err
	}
	sort.Strings(names)
	d := &Dump{Colls: map[string][]rawDoc{}, Idx: map[string][]string{}}
	for _, n := range names {
		c, err := db.OpenCollection(ctx, n)
		if err != nil {
			return nil, fmt.Errorf("open collection %s: %w", n, err)
		}
		var idx []string
		for _, i := range c.GetIndexes() {
			idx = append(idx, i.Info().Name)
		}
		sort.Strings(idx)
		d.Idx[n] = idx
		it, err := c.Find(nil).Iter(ctx)
		if err != nil {
			return nil, err
		}
		var docs []rawDoc
		for it.Next() {
			doc, err := it.Doc()
			if err != nil {
				it.Close()
				return nil, err
			}
			// the iterator reuses its buffers: take a private copy through the JSON rendering
			var m map[string]any
			if err := json.Unmarshal([]byte(doc.Value().String()), &m); err != nil {
				it.Close()
				return nil, fmt.Errorf("document of %s is not an object: %w", n, err)
			}
			id, _ := m["id"].(string)
			docs = append(docs, rawDoc{Coll: n, Id: id, V: m})
		}
		it.Close()
		sort.Slice(docs, func(a, b int) bool { return docs[a].Id < docs[b].Id })
		d.Colls[n] = docs
	}
	for _, n := range names {
		cn := fx.collName(n)
		d.lines = append(d.lines, fmt.Sprintf("%s#idx=%s", cn, strings.Join(d.Idx[n], ",")))
		for _, doc := range d.Colls[n] {
			b, _ := json.Marshal(doc.V)
			s := sha256.Sum256(b)
			d.lines = append(d.lines, fmt.Sprintf("%s/%s=%s", cn, fx.in.get(doc.Id), hex.EncodeToString(s[:6])))
		}
	}
	return d, nil
}

func (d *Dump) full() string { return strings.Join(d.lines, "\n") }

// diff lists the lines of d that are not in o and vice versa (for messages).
func (d *Dump) diff(o *Dump) string {
	a, b := map[string]bool{}, map[string]bool{}
	for _, l := range d.lines {
		a[l] = true
	}
	for _, l := range o.lines {
		b[l] = true
	}
	var out []string
	for _, l := range d.lines {
		if !b[l] {
			out = append(out, "+"+l)
		}
	}
	for _, l := range o.lines {
		if !a[l] {
			out = append(out, "-"+l)
		}
	}
	if len(out) > 8 {
		out = append(out[:8], "…")
	}
	return strings.Join(out, " ")
}

func strs(v any) []string {
	arr, _ := v.([]any)
	out := make([]string, 0, len(arr))
	for _, x := range arr {
		if s, ok := x.(string); ok {
			out = append(out, s)
		}
	}
	return out
}

func str(v any) string { s, _ := v.(string); return s }

func num(v any) int {
	switch x := v.(type) {
	case float64:
		return int(x)
	case int:
		return x
	case int64:
		return int(x)
	}
	return 0
}

// sem is the semantic content of the durable state: per tree the recorded heads and the stored
// change ids in stored order; for the ACL the head and the record ids in order. It leaves out the
// fields that legitimately differ between two executions of the same input (insert time, add-seq).
func (d *Dump) sem(fx *Fixture) string {
	var out []string
	byTree := map[string][]rawDoc{}
	for _, c := range d.Colls[objecttree.CollName] {
		t := str(c.V[objecttree.TreeKey])
		byTree[t] = append(byTree[t], c)
	}
	for _, h := range d.Colls["heads"] {
		if h.Id == fx.aclId {
			recs := append([]rawDoc{}, d.Colls[fx.aclId]...)
			sort.Slice(recs, func(a, b int) bool { return num(recs[a].V["o"]) < num(recs[b].V["o"]) })
			ids := make([]string, len(recs))
			for i, r := range recs {
				ids[i] = r.Id
			}
			out = append(out, fmt.Sprintf("acl head=%s recs=%s", fx.in.list(strs(h.V["h"])), fx.in.list(ids)))
			continue
		}
		chs := append([]rawDoc{}, byTree[h.Id]...)
		sort.Slice(chs, func(a, b int) bool { return str(chs[a].V["o"]) < str(chs[b].V["o"]) })
		ids := make([]string, len(chs))
		for i, c := range chs {
			ids[i] = c.Id
		}
		out = append(out, fmt.Sprintf("tree %s heads=%s cs=%s changes=%s", fx.in.get(h.Id),
			fx.in.list(sortedCopy(strs(h.V["h"]))), fx.in.get(str(h.V["s"])), fx.in.list(ids)))
		delete(byTree, h.Id)
	}
	for t, chs := range byTree {
		out = append(out, fmt.Sprintf("orphan-changes tree=%s n=%d", fx.in.get(t), len(chs)))
	}
	sort.Strings(out)
	if len(out) == 0 {
		return "empty"
	}
	return strings.Join(out, " | ")
}
