package store

import (
	"errors"
	"fmt"
	"os"

	"github.com/anyproto/any-sync/commonspace/headsync/headstorage"
	"github.com/anyproto/any-sync/commonspace/object/tree/objecttree"
	"github.com/anyproto/any-sync/commonspace/object/tree/treechangeproto"
	"github.com/anyproto/any-sync/commonspace/object/tree/treestorage"
	"github.com/anyproto/any-sync/commonspace/spacestorage"
)

// gen produces the workload online: each operation's input is fixed at generation time from the main
// world's live state (heads, ACL head) and from throw-away replicas forked from copies of the main
// database (the source of "remote" changes).
type gen struct {
	rn     *runner
	trees  []string       // live, non-deleted trees of the main world (the settings tree included)
	snaps  map[string]int // snapshots made on the main world per tree
	forks  []forkPoint    // kept copies of earlier main states
	queue  []func() *opSpec
	ts     int64
	nTrees int
	// sizeWanted > 0: the next remote batch has exactly this many changes
	sizeWanted int
	derived    map[string]bool // trees bound to a parent
	queued     map[string]bool // trees whose heads entry is marked queued-for-deletion
}

func sizeBucket(prefix string, n int) string {
	switch {
	case n <= 4:
		return fmt.Sprintf("%s.%d", prefix, n)
	case n <= 128:
		return prefix + ".5-128"
	case n <= 512:
		return prefix + ".129-512"
	case n <= 1024:
		return prefix + ".513-1024"
	default:
		return prefix + ".1025+"
	}
}

type forkPoint struct {
	dir   string
	trees map[string]bool
	snaps map[string]int
}

func newGen(rn *runner) *gen {
	return &gen{rn: rn, snaps: map[string]int{}, ts: 1_700_000_000, derived: map[string]bool{}, queued: map[string]bool{}}
}

func (g *gen) r() interface {
	Intn(int) int
	Chance(int) bool
} {
	return g.rn.r
}

func (g *gen) nextTs() int64 { g.ts++; return g.ts }

func (g *gen) createSpace() *opSpec {
	fx := g.rn.fx
	return &opSpec{
		kind: "space-create", desc: "space-create", freshDB: true,
		run: func(w *World) error {
			ss, err := spacestorage.Create(ctx, w.store, fx.payload)
			if err != nil {
				return err
			}
			_ = ss
			// the objects any-sync then works with are the ones the real constructors give
			return w.attach()
		},
		trees: []string{fx.settingsId}, acl: true,
		after: func() { g.trees = append(g.trees, fx.settingsId) },
		model: &modelOp{kind: "space-create"},
	}
}

func (g *gen) markFork() forkPoint {
	fx := g.rn.fx
	d := fx.newDir("fp")
	if err := copyImage(g.rn.main.dir, d); err != nil {
		g.rn.fatal("fork point: " + err.Error())
	}
	fp := forkPoint{dir: d, trees: map[string]bool{}, snaps: map[string]int{}}
	for _, t := range g.trees {
		fp.trees[t] = true
		fp.snaps[t] = g.snaps[t]
	}
	g.forks = append(g.forks, fp)
	if len(g.forks) > 3 {
		os.RemoveAll(g.forks[0].dir)
		g.forks = g.forks[1:]
	}
	return fp
}

func (g *gen) pickTree(allowSettings bool) string {
	var c []string
	for _, t := range g.trees {
		if allowSettings || t != g.rn.fx.settingsId {
			c = append(c, t)
		}
	}
	if len(c) == 0 {
		return ""
	}
	return c[g.r().Intn(len(c))]
}

func (g *gen) next() *opSpec {
	defer g.rn.timed("gen")()
	if len(g.queue) > 0 {
		f := g.queue[0]
		g.queue = g.queue[1:]
		return f()
	}
	r := g.r()
	if r.Chance(15) {
		g.markFork()
	}
	switch x := r.Intn(108); {
	case x >= 104:
		return g.noErrorAdd()
	case x >= 100:
		return g.treeCreateChild()
	case x < 10:
		return g.treeCreate()
	case x < 22:
		return g.treeCreateDeferred()
	case x < 37:
		return g.localAdd(g.pickTree(true), false)
	case x < 47:
		return g.localAdd(g.pickTree(true), true)
	case x < 53:
		return g.rejectedAdd(g.pickTree(true), r.Chance(60))
	case x < 68:
		return g.remoteAdd(false)
	case x < 80:
		return g.remoteAdd(true)
	case x < 93:
		return g.aclAdd()
	default:
		if len(g.trees) > 2 {
			return g.treeDelete(g.pickTree(false))
		}
		return g.treeCreate()
	}
}

func (g *gen) content(snapshot bool) objecttree.SignableChangeContent {
	return objecttree.SignableChangeContent{
		Data:       []byte(fmt.Sprintf("data-%d", g.ts)),
		Key:        g.rn.fx.keys.SignKey,
		IsSnapshot: snapshot,
		Timestamp:  g.nextTs(),
		DataType:   "verif",
	}
}

func (g *gen) newRoot() *treechangeproto.RawTreeChangeWithId {
	g.nTrees++
	root, err := objecttree.CreateObjectTreeRoot(objecttree.ObjectTreeCreatePayload{
		PrivKey:    g.rn.fx.keys.SignKey,
		ChangeType: "verif",
		SpaceId:    g.rn.fx.spaceId,
		Seed:       []byte(fmt.Sprintf("seed-%d-%d", g.nTrees, g.ts)),
		Timestamp:  g.nextTs(),
	}, g.rn.main.acl)
	if err != nil {
		g.rn.fatal("CreateObjectTreeRoot: " + err.Error())
	}
	return root
}

// --- tree create (eager): CreateTreeStorage (one tx: root insert + heads entry), then BuildObjectTree
func (g *gen) treeCreate() *opSpec {
	root := g.newRoot()
	id := root.Id
	return &opSpec{
		kind: "tree-create", desc: "tree-create t=" + g.rn.fx.in.get(id), trees: []string{id},
		run: func(w *World) error {
			st, err := w.ss.CreateTreeStorage(ctx, treestorage.TreeStorageCreatePayload{RootRawChange: root, Heads: []string{id}})
			if err != nil {
				return err
			}
			t, err := objecttree.BuildObjectTree(st, w.acl)
			if err != nil {
				return err
			}
			w.trees[id] = t
			return nil
		},
		after: func() { g.trees = append(g.trees, id) },
		model: &modelOp{kind: "tree-create", tree: id},
	}
}

// replica opens a throw-away copy of a database directory with the real constructors.
func (g *gen) replica(src string) *World {
	fx := g.rn.fx
	d := fx.newDir("gen")
	if err := copyImage(src, d); err != nil {
		g.rn.fatal("replica copy: " + err.Error())
	}
	w, err := fx.open(d, false)
	if err != nil {
		g.rn.fatal("replica open: " + err.Error())
	}
	if err := w.attach(); err != nil {
		g.rn.fatal("replica attach: " + err.Error())
	}
	return w
}

func (g *gen) dropReplica(w *World) {
	w.close()
	os.RemoveAll(w.dir)
}

// grow adds n local changes to tree t of a replica and returns them as a remote peer would send them.
func (g *gen) grow(t objecttree.ObjectTree, n int, snapAt int) (raws []*treechangeproto.RawTreeChangeWithId) {
	for i := 0; i < n; i++ {
		t.Lock()
		res, err := t.AddContent(ctx, g.content(i == snapAt))
		t.Unlock()
		if err != nil {
			g.rn.fatal("replica AddContent: " + err.Error())
		}
		raws = append(raws, res.RawChanges()...)
	}
	return
}

// --- tree create (deferred): the tree arrives from a peer; CreateStorageWithDeferredCreation writes
// nothing; the first AddRawChanges creates the storage and inserts the changes in one transaction
func (g *gen) treeCreateDeferred() *opSpec {
	root := g.newRoot()
	id := root.Id
	b := g.replica(g.rn.main.dir)
	st, err := b.ss.CreateTreeStorage(ctx, treestorage.TreeStorageCreatePayload{RootRawChange: root, Heads: []string{id}})
	if err != nil {
		g.rn.fatal("replica CreateTreeStorage: " + err.Error())
	}
	bt, err := objecttree.BuildObjectTree(st, b.acl)
	if err != nil {
		g.rn.fatal("replica BuildObjectTree: " + err.Error())
	}
	n := 1 + g.r().Intn(3)
	snapAt := -1
	if g.r().Chance(25) {
		snapAt = g.r().Intn(n)
	}
	raws := g.grow(bt, n, snapAt)
	heads := append([]string{}, bt.Heads()...)
	g.dropReplica(b)
	variant := "full"
	if n >= 2 && g.r().Chance(20) {
		// a batch whose first change is missing: nothing attaches, the storage is created with the root only
		raws = raws[1:]
		variant = "gap"
	}
	payload := objecttree.RawChangesPayload{NewHeads: heads, RawChanges: raws}
	snaps := 0
	if snapAt >= 0 && variant == "full" {
		snaps = 1
	}
	var op *opSpec
	op = &opSpec{
		kind: "tree-create-deferred", desc: fmt.Sprintf("tree-create-deferred t=%s n=%d %s", g.rn.fx.in.get(id), len(raws), variant), trees: []string{id},
		run: func(w *World) error {
			t, ok := w.trees[id]
			if !ok {
				st, err := w.ss.CreateStorageWithDeferredCreation(ctx, treestorage.TreeStorageCreatePayload{RootRawChange: root, Heads: []string{id}})
				if err != nil {
					return err
				}
				t, err = objecttree.BuildObjectTree(st, w.acl)
				if err != nil {
					return err
				}
				w.trees[id] = t
			}
			t.Lock()
			defer t.Unlock()
			res, err := t.AddRawChanges(ctx, payload)
			if err == nil && w == g.rn.main {
				op.capture(res)
			}
			return err
		},
		after: func() { g.trees = append(g.trees, id); g.snaps[id] = snaps },
		model: &modelOp{kind: "tree-create-deferred", tree: id},
	}
	return op
}

// --- local add / snapshot add
func (g *gen) localAdd(id string, snapshot bool) *opSpec {
	if id == "" {
		return nil
	}
	content := g.content(snapshot)
	kind := "local-add"
	if snapshot {
		kind = "snapshot-add"
	}
	var op *opSpec
	op = &opSpec{
		kind: kind, desc: fmt.Sprintf("%s t=%s", kind, g.rn.fx.in.get(id)), trees: []string{id},
		run: func(w *World) error {
			t, err := w.tree(id)
			if err != nil {
				return err
			}
			t.Lock()
			defer t.Unlock()
			res, err := t.AddContent(ctx, content)
			if err == nil && w == g.rn.main {
				op.capture(res)
			}
			return err
		},
		after: func() {
			if snapshot {
				g.snaps[id]++
			}
		},
		model: &modelOp{kind: kind, tree: id},
	}
	return op
}

func (op *opSpec) capture(res objecttree.AddResult) {
	op.added = op.added[:0]
	for _, c := range res.Added {
		op.added = append(op.added, c.Id)
	}
	op.heads = append([]string{}, res.Heads...)
}

var errRejected = errors.New("verif: validator rejects")

// --- a local change (snapshot or not) that its validator rejects, then the same input accepted
func (g *gen) rejectedAdd(id string, snapshot bool) *opSpec {
	op := g.localAdd(id, snapshot)
	if op == nil {
		return nil
	}
	content := g.content(snapshot)
	op.kind = "rejected-then-" + op.kind
	op.desc = "rejected-then-" + op.desc
	add := func(w *World, v objecttree.ChangeValidator) error {
		t, err := w.tree(id)
		if err != nil {
			return err
		}
		t.Lock()
		defer t.Unlock()
		res, err := t.AddContentWithValidator(ctx, content, v)
		if err == nil && w == g.rn.main {
			op.capture(res)
		}
		return err
	}
	op.rejectFirst = func(w *World) error {
		return add(w, func(objecttree.StorageChange) error { return errRejected })
	}
	op.run = func(w *World) error {
		return add(w, func(objecttree.StorageChange) error { return nil })
	}
	return op
}

// --- remote add: changes made by a peer that forked from an earlier state of this replica.
// rebuild=true arranges the situation in which the receiving tree must go back to storage: the
// peer's changes hang below a snapshot that the receiver has since left behind.
func (g *gen) remoteAdd(rebuild bool) *opSpec {
	id := g.pickTree(true)
	if id == "" {
		return nil
	}
	if rebuild {
		// fork now, then a local snapshot (and sometimes more) on the main world, then the peer's changes
		fp := g.markFork()
		g.queue = append(g.queue, func() *opSpec { return g.localAdd(id, true) })
		if g.r().Chance(50) {
			g.queue = append(g.queue, func() *opSpec { return g.localAdd(id, false) })
		}
		g.queue = append(g.queue, func() *opSpec { return g.remoteFrom(fp, id, "remote-rebuild") })
		f := g.queue[0]
		g.queue = g.queue[1:]
		return f()
	}
	// a fork point that knows the tree and has seen all of the main world's snapshots of it, else now
	for i := len(g.forks) - 1; i >= 0; i-- {
		fp := g.forks[i]
		if fp.trees[id] && fp.snaps[id] == g.snaps[id] && g.r().Chance(60) {
			return g.remoteFrom(fp, id, "remote-add")
		}
	}
	return g.remoteFrom(g.markFork(), id, "remote-add")
}

// remoteSized: a single remote add of exactly n new changes (batch sizes on both sides of anything a
// storage layer might chunk by: 1, 2, ~50, 513, 600, 1100, …) into an existing tree storage.
func (g *gen) remoteSized(n int) *opSpec {
	id := g.pickTree(true)
	if id == "" {
		return nil
	}
	g.sizeWanted = n
	op := g.remoteFrom(g.markFork(), id, "remote-add")
	g.sizeWanted = 0
	return op
}

func (g *gen) remoteFrom(fp forkPoint, id string, kind string) *opSpec {
	stillThere := false
	for _, t := range g.trees {
		if t == id {
			stillThere = true
		}
	}
	if !stillThere || !fp.trees[id] {
		return nil
	}
	b := g.replica(fp.dir)
	bt, err := b.tree(id)
	if err != nil {
		g.rn.fatal("replica tree: " + err.Error())
	}
	n := 1 + g.r().Intn(4)
	if g.r().Chance(8) {
		n = 20 + g.r().Intn(60)
	}
	if g.sizeWanted > 0 {
		n = g.sizeWanted
	}
	snapAt := -1
	if g.r().Chance(20) && g.sizeWanted == 0 {
		snapAt = g.r().Intn(n)
	}
	raws := g.grow(bt, n, snapAt)
	g.rn.r.Count(sizeBucket("remote.size", n))
	heads := append([]string{}, bt.Heads()...)
	bt.Lock()
	path, _ := bt.SnapshotPath()
	bt.Unlock()
	path = append([]string{}, path...)
	g.dropReplica(b)
	variant := "full"
	if n >= 2 && g.sizeWanted == 0 && g.r().Chance(15) {
		raws = raws[1:]
		variant = "gap"
	}
	payload := objecttree.RawChangesPayload{NewHeads: heads, RawChanges: raws, SnapshotPath: path}
	var mode objecttree.Mode
	var op *opSpec
	op = &opSpec{
		kind: kind, desc: fmt.Sprintf("%s t=%s n=%d %s", kind, g.rn.fx.in.get(id), len(raws), variant), trees: []string{id},
		run: func(w *World) error {
			t, err := w.tree(id)
			if err != nil {
				return err
			}
			t.Lock()
			defer t.Unlock()
			res, err := t.AddRawChanges(ctx, payload)
			if err == nil && w == g.rn.main {
				mode = res.Mode
				op.capture(res)
			}
			return err
		},
		after: func() {
			g.rn.r.Count("remote.mode." + map[objecttree.Mode]string{objecttree.Append: "append", objecttree.Rebuild: "rebuild", objecttree.Nothing: "nothing"}[mode])
			if variant == "full" && snapAt >= 0 {
				// the peer's snapshot is now stored here as well; count it so that later fork points compare right
				g.snaps[id]++
			}
			if g.r().Chance(25) {
				// the same batch once more: everything is known already
				g.queue = append(g.queue, func() *opSpec {
					var dup *opSpec
					dup = &opSpec{
						kind: "remote-dup", desc: "remote-dup t=" + g.rn.fx.in.get(id), trees: []string{id},
						run: func(w *World) error {
							t, err := w.tree(id)
							if err != nil {
								return err
							}
							t.Lock()
							defer t.Unlock()
							res, err := t.AddRawChanges(ctx, payload)
							if err == nil && w == g.rn.main {
								dup.capture(res)
							}
							return err
						},
						model: &modelOp{kind: "remote-dup", tree: id},
					}
					return dup
				})
			}
		},
		model: &modelOp{kind: kind, tree: id},
	}
	return op
}

// --- storage.AddAllNoError (the migrator's entry point): a batch written straight to the tree storage,
// its first element a change that is stored already (skipped with "document exists"), the rest new
func (g *gen) noErrorAdd() *opSpec {
	id := g.pickTree(true)
	if id == "" {
		return nil
	}
	fx := g.rn.fx
	b := g.replica(g.rn.main.dir)
	bt, err := b.tree(id)
	if err != nil {
		g.rn.fatal("replica tree: " + err.Error())
	}
	dupId := bt.Heads()[0]
	dup, err := bt.Storage().Get(ctx, dupId)
	if err != nil {
		g.rn.fatal("replica get: " + err.Error())
	}
	dup.RawChange = append([]byte{}, dup.RawChange...)
	n := 1 + g.r().Intn(3)
	var added []objecttree.StorageChange
	for i := 0; i < n; i++ {
		bt.Lock()
		res, err := bt.AddContent(ctx, g.content(false))
		bt.Unlock()
		if err != nil {
			g.rn.fatal("replica AddContent: " + err.Error())
		}
		for _, c := range res.Added {
			c.RawChange = append([]byte{}, c.RawChange...)
			added = append(added, c)
		}
	}
	heads := append([]string{}, bt.Heads()...)
	cs := bt.Root().Id
	g.dropReplica(b)
	withDup := g.r().Chance(80)
	batch := added
	if withDup {
		batch = append([]objecttree.StorageChange{dup}, added...)
	}
	var op *opSpec
	op = &opSpec{
		kind: "noerror-add", desc: fmt.Sprintf("noerror-add t=%s n=%d dup=%v", fx.in.get(id), n, withDup),
		allowDupErr: true,
		run: func(w *World) error {
			st, err := w.ss.TreeStorage(ctx, id)
			if err != nil {
				return err
			}
			in := make([]objecttree.StorageChange, len(batch))
			copy(in, batch)
			if err := st.AddAllNoError(ctx, in, heads, cs); err != nil {
				return err
			}
			// the tree object, if any, was bypassed: it is rebuilt from storage at its next use
			delete(w.trees, id)
			if w == g.rn.main {
				op.added = op.added[:0]
				for _, c := range added {
					op.added = append(op.added, c.Id)
				}
				op.heads = heads
			}
			return nil
		},
		model: &modelOp{kind: "noerror-add", tree: id},
	}
	if withDup {
		op.model.dups = []string{dupId}
	}
	return op
}

// --- a derived tree bound to a parent (CreateStorageTx's parent checks); sometimes the parent was
// queued for deletion before, so that the child is marked in the same transaction
func (g *gen) treeCreateChild() *opSpec {
	var parents []string
	for _, t := range g.trees {
		if !g.derived[t] {
			parents = append(parents, t)
		}
	}
	if len(parents) == 0 {
		return nil
	}
	parent := parents[g.r().Intn(len(parents))]
	g.nTrees++
	root, err := objecttree.DeriveObjectTreeRoot(objecttree.ObjectTreeDerivePayload{
		ChangeType:    "verif-child",
		ChangePayload: []byte(fmt.Sprintf("child-%d-%d", g.nTrees, g.ts)),
		SpaceId:       g.rn.fx.spaceId,
		ParentId:      parent,
	}, g.rn.main.acl)
	if err != nil {
		g.rn.fatal("DeriveObjectTreeRoot: " + err.Error())
	}
	id := root.Id
	queued := g.queued[parent]
	if !queued && g.r().Chance(40) {
		// what deletionstate does when a delete request arrives: a single upsert of the parent's entry
		st := headstorage.DeletedStatusQueued
		if err := g.rn.main.ss.HeadStorage().UpdateEntry(ctx, headstorage.HeadsUpdate{Id: parent, DeletedStatus: &st}); err != nil {
			g.rn.fatal("mark queued: " + err.Error())
		}
		g.queued[parent] = true
		queued = true
	}
	return &opSpec{
		kind: "tree-create-child", desc: fmt.Sprintf("tree-create-child t=%s parent=%s queued=%v", g.rn.fx.in.get(id), g.rn.fx.in.get(parent), queued),
		trees: []string{id},
		run: func(w *World) error {
			st, err := w.ss.CreateTreeStorage(ctx, treestorage.TreeStorageCreatePayload{RootRawChange: root, Heads: []string{id}})
			if err != nil {
				return err
			}
			t, err := objecttree.BuildObjectTree(st, w.acl)
			if err != nil {
				return err
			}
			w.trees[id] = t
			return nil
		},
		after: func() { g.trees = append(g.trees, id); g.derived[id] = true },
		model: &modelOp{kind: "tree-create-child", tree: id, queued: queued},
	}
}

// --- ACL record add: the owner creates an invite record; AddRawRecord applies and persists it
func (g *gen) aclAdd() *opSpec {
	main := g.rn.main
	main.acl.RLock()
	res, err := main.acl.RecordBuilder().BuildInvite()
	main.acl.RUnlock()
	if err != nil {
		g.rn.fatal("BuildInvite: " + err.Error())
	}
	rec := wrapAclRecord(res.InviteRec)
	return &opSpec{
		kind: "acl-add", desc: "acl-add rec=" + g.rn.fx.in.get(rec.Id), acl: true,
		run: func(w *World) error {
			w.acl.Lock()
			defer w.acl.Unlock()
			return w.acl.AddRawRecord(rec)
		},
		model: &modelOp{kind: "acl-add", rec: rec.Id},
	}
}

// --- tree delete: ObjectTree.Delete → storage.Delete (all changes of the tree in one tx)
func (g *gen) treeDelete(id string) *opSpec {
	if id == "" {
		return nil
	}
	return &opSpec{
		kind: "tree-delete", desc: "tree-delete t=" + g.rn.fx.in.get(id), trees: []string{id},
		run: func(w *World) error {
			t, err := w.tree(id)
			if err != nil {
				return err
			}
			t.Lock()
			defer t.Unlock()
			return t.Delete()
		},
		after: func() {
			var keep []string
			for _, t := range g.trees {
				if t != id {
					keep = append(keep, t)
				}
			}
			g.trees = keep
		},
		model: &modelOp{kind: "tree-delete", tree: id},
	}
}
