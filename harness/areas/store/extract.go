package store

import (
	"fmt"
	"go/ast"
	"os"
	"path/filepath"
	"strings"

	"verifharness/internal/corr"
	"verifharness/internal/goast"
)

// The small translator for C10: facts about the *shape* of the persistence functions, regenerated
// from the source on every run into Generated/StoreShape.lean. The Lean model's `traceOf` mirrors
// exactly this shape (one transaction, every write with the transaction's context, commit/rollback
// decided by the function's *named* error result); Props/C10.lean carries the obligation
// `shape_ok`. Only exact shapes are recognised; anything else gives `false`.

func init() { corr.RegisterExtractor("store", extract) }

type fnFacts struct {
	found      bool
	namedErr   bool // the function's results include a named `err error`
	begins     bool // `tx, err := <x>.WriteTx(ctx)` (or `store.WriteTx(ctx)`)
	writesInTx bool // every storage call of the body takes tx.Context() as its context
	nWrites    int
	finishes   bool // commit/rollback decided in a defer on `err`, or `return tx.Commit()` with rollback on the error paths
}

// storage calls by callee name: their first argument is the context
var ctxCallees = map[string]bool{
	"Insert": true, "UpdateEntry": true, "UpsertId": true, "EnsureIndex": true, "Collection": true,
	"CreateTx": true, "CreateStorageTx": true, "New": true, "Delete": true, "createStorage": true, "proc": true,
}

func calleeName(c *ast.CallExpr) string {
	switch f := c.Fun.(type) {
	case *ast.SelectorExpr:
		return f.Sel.Name
	case *ast.Ident:
		return f.Name
	}
	return ""
}

func analyse(g *goast.File, fd *ast.FuncDecl) (f fnFacts) {
	if fd == nil || fd.Body == nil {
		return
	}
	f.found = true
	if fd.Type.Results != nil {
		for _, r := range fd.Type.Results.List {
			for _, n := range r.Names {
				if n.Name == "err" && g.Str(r.Type) == "error" {
					f.namedErr = true
				}
			}
		}
	}
	f.writesInTx = true
	deferDecides, returnsCommit, rollbacks := false, false, 0
	ast.Inspect(fd.Body, func(n ast.Node) bool {
		switch x := n.(type) {
		case *ast.AssignStmt:
			s := g.Str(x)
			if strings.HasPrefix(s, "tx, err := ") && strings.HasSuffix(s, ".WriteTx(ctx)") {
				f.begins = true
			}
		case *ast.DeferStmt:
			s := g.Str(x)
			if strings.Contains(s, "if err != nil {") && strings.Contains(s, "tx.Rollback()") {
				if strings.Contains(s, "err = tx.Commit()") {
					deferDecides = true
				}
				rollbacks++
			} else if strings.Contains(s, "tx.Rollback()") {
				rollbacks++ // unconditional `defer tx.Rollback()` (a no-op after a successful commit)
			}
		case *ast.ReturnStmt:
			if strings.Contains(g.Str(x), "tx.Commit()") {
				returnsCommit = true
			}
		case *ast.ExprStmt:
			if g.Str(x) == "tx.Rollback()" {
				rollbacks++
			}
		case *ast.CallExpr:
			name := calleeName(x)
			if name == "Delete" && len(x.Args) != 1 {
				return true
			}
			if !ctxCallees[name] || len(x.Args) == 0 {
				return true
			}
			if name == "New" && !strings.HasSuffix(g.Str(x.Fun), "headstorage.New") {
				return true
			}
			f.nWrites++
			if g.Str(x.Args[0]) != "tx.Context()" {
				f.writesInTx = false
			}
		}
		return true
	})
	f.finishes = (deferDecides && f.namedErr) || (returnsCommit && rollbacks > 0)
	return
}

func (f fnFacts) ok() bool {
	return f.found && f.begins && f.writesInTx && f.nWrites > 0 && f.finishes
}

// orderOf returns the source positions of the first statements containing a and b inside fd.
func before(g *goast.File, fd *ast.FuncDecl, a, b string) bool {
	if fd == nil || fd.Body == nil {
		return false
	}
	pa, pb := -1, -1
	ast.Inspect(fd.Body, func(n ast.Node) bool {
		if st, ok := n.(ast.Stmt); ok {
			if _, isBlock := st.(*ast.BlockStmt); isBlock {
				return true
			}
			s := g.Str(st)
			if pa < 0 && strings.Contains(s, a) {
				if _, isIf := st.(*ast.IfStmt); !isIf || strings.HasPrefix(s, "if err = "+a) || strings.HasPrefix(s, "if err := "+a) {
					pa = int(st.Pos())
				}
			}
			if pb < 0 && strings.HasPrefix(s, b) {
				pb = int(st.Pos())
			}
		}
		return true
	})
	return pa >= 0 && pb >= 0 && pa < pb
}

func extract(repo, out string) error {
	parse := func(rel string) (*goast.File, error) { return goast.Parse(filepath.Join(repo, rel)) }
	tree, err := parse("commonspace/object/tree/objecttree/storage.go")
	if err != nil {
		return err
	}
	deferred, err := parse("commonspace/object/tree/objecttree/storagedeferred.go")
	if err != nil {
		return err
	}
	ot, err := parse("commonspace/object/tree/objecttree/objecttree.go")
	if err != nil {
		return err
	}
	aclSt, err := parse("commonspace/object/acl/list/storage.go")
	if err != nil {
		return err
	}
	aclList, err := parse("commonspace/object/acl/list/list.go")
	if err != nil {
		return err
	}
	space, err := parse("commonspace/spacestorage/spacestorage.go")
	if err != nil {
		return err
	}
	treeAddAll := analyse(tree, tree.Fn("storage", "AddAll"))
	treeAddAllNoErr := analyse(tree, tree.Fn("storage", "AddAllNoError"))
	treeCreate := analyse(tree, tree.Fn("", "CreateStorage"))
	treeDelete := analyse(tree, tree.Fn("storage", "Delete"))
	aclAddAll := analyse(aclSt, aclSt.Fn("storage", "AddAll"))
	spaceCreate := analyse(space, space.Fn("", "Create"))
	defCreate := analyse(deferred, deferred.Fn("storageDeferredCreation", "createStorageAndDoInTx"))

	// deferred creation forgets the half-created storage when the creating transaction fails
	defClears := false
	if fd := deferred.Fn("storageDeferredCreation", "createStorageAndDoInTx"); fd != nil {
		ast.Inspect(fd.Body, func(n ast.Node) bool {
			if d, ok := n.(*ast.DeferStmt); ok {
				s := deferred.Str(d)
				if strings.Contains(s, "if err != nil {") && strings.Contains(s, "s.storage = nil") {
					defClears = true
				}
			}
			return true
		})
	}
	// ACL: persist, then swap
	aclWriteFirst := before(aclList, aclList.Fn("aclList", "AddRawRecord"), "a.storage.AddAll(", "a.setState(")
	// tree delete: storage first, flag afterwards
	delFlagAfter := before(ot, ot.Fn("objectTree", "Delete"), "ot.storage.Delete(", "ot.isDeleted = true")
	// local add: a failed AddAll is followed by a rebuild from storage; remote add: rollback()
	localRebuilds, remoteRollsBack := false, false
	if fd := ot.Fn("objectTree", "AddContentWithValidator"); fd != nil {
		ast.Inspect(fd.Body, func(n ast.Node) bool {
			if ifs, ok := n.(*ast.IfStmt); ok && ot.Str(ifs.Cond) == "err != nil" && strings.Contains(ot.Str(ifs.Body), "ot.rebuildFromStorage(nil, nil, nil)") {
				localRebuilds = true
			}
			return true
		})
	}
	if fd := ot.Fn("objectTree", "AddRawChangesWithUpdater"); fd != nil {
		var prev ast.Stmt
		for _, st := range fd.Body.List {
			if ifs, ok := st.(*ast.IfStmt); ok && prev != nil && strings.HasPrefix(ot.Str(prev), "err = ot.storage.AddAll(") &&
				ot.Str(ifs.Cond) == "err != nil" && strings.Contains(ot.Str(ifs.Body), "rollback()") {
				remoteRollsBack = true
			}
			prev = st
		}
	}

	var b strings.Builder
	b.WriteString("/- GENERATED by `verifharness extract` (harness/areas/store/extract.go) from the persistence functions of /repo.\n   Do not edit. -/\nnamespace AnySync.Generated.Store\n\n")
	def := func(name string, v bool, doc string) {
		fmt.Fprintf(&b, "/-- %s -/\ndef %s : Bool := %s\n\n", doc, name, goast.LeanBool(v))
	}
	def("treeAddAllSingleTx", treeAddAll.ok() && treeAddAll.namedErr, "objecttree storage.AddAll: begins a write tx, every Insert/UpdateEntry takes tx.Context(), commit/rollback decided in a defer on the NAMED error result")
	def("treeAddAllNoErrorSingleTx", treeAddAllNoErr.ok() && treeAddAllNoErr.namedErr, "objecttree storage.AddAllNoError: same shape")
	def("treeCreateSingleTx", treeCreate.ok(), "objecttree.CreateStorage: one tx around CreateStorageTx, rollback on error, commit at the end")
	def("treeDeleteSingleTx", treeDelete.ok(), "objecttree storage.Delete: one tx, query-delete with tx.Context(), rollback on error, commit at the end")
	def("aclAddAllSingleTx", aclAddAll.ok() && aclAddAll.namedErr, "acl storage.AddAll: begins a write tx, Insert and UpdateEntry take tx.Context(), commit/rollback decided on the NAMED error result")
	def("spaceCreateSingleTx", spaceCreate.ok() && spaceCreate.namedErr && spaceCreate.nWrites >= 6, "spacestorage.Create: one tx; collections, indexes, state, head storage, ACL storage and settings tree all created with tx.Context()")
	def("deferredSingleTx", defCreate.ok(), "storageDeferredCreation.createStorageAndDoInTx: createStorage and proc run with tx.Context(), commit at the end, rollback deferred")
	def("deferredClearsStorageOnFailure", defClears && defCreate.namedErr, "… and `s.storage = nil` when the creating transaction did not commit")
	def("aclWriteBeforeSwap", aclWriteFirst, "aclList.AddRawRecord: storage.AddAll before setState / append")
	def("treeDeleteFlagAfterWrite", delFlagAfter, "objectTree.Delete: isDeleted set after storage.Delete succeeded")
	def("localAddRebuildsOnError", localRebuilds, "objectTree.AddContentWithValidator: a failed AddAll is followed by rebuildFromStorage")
	def("remoteAddRollsBackOnError", remoteRollsBack, "objectTree.AddRawChangesWithUpdater: a failed AddAll is followed by rollback()")
	b.WriteString("def allOk : Bool :=\n  treeAddAllSingleTx && treeAddAllNoErrorSingleTx && treeCreateSingleTx && treeDeleteSingleTx && aclAddAllSingleTx &&\n  spaceCreateSingleTx && deferredSingleTx && deferredClearsStorageOnFailure && aclWriteBeforeSwap &&\n  treeDeleteFlagAfterWrite && localAddRebuildsOnError && remoteAddRollsBackOnError\n\nend AnySync.Generated.Store\n")
	return os.WriteFile(filepath.Join(out, "StoreShape.lean"), []byte(b.String()), 0o644)
}
