package store

import (
	"fmt"
	"sort"

	"github.com/anyproto/any-sync/commonspace/object/acl/list"
	"github.com/anyproto/any-sync/commonspace/object/acl/recordverifier"
	"github.com/anyproto/any-sync/commonspace/object/tree/objecttree"
	"github.com/anyproto/any-sync/commonspace/spacestorage"
)

// checkDurable states the durable-state predicate of C10 directly on a database as it is found on
// disk (w is a plain, unwrapped world over a crash image or over the live files):
//
//   - either nothing of the space exists (no collections / no documents), or the space opens with
//     spacestorage.New and
//   - every heads entry belongs to the ACL or to a tree; every stored change belongs to a tree that
//     has a heads entry;
//   - tree: recorded heads are non-empty and name stored changes; the root is stored; every stored
//     change's parents and snapshot base are stored; stored order respects causality (parents and
//     snapshot base sort strictly before the change); the recorded common snapshot is stored; the
//     recorded heads are exactly the stored changes without stored children; NewStorage +
//     BuildObjectTree succeed and the object reports the recorded heads;
//   - a tree whose changes are all gone (storage.Delete) is accepted only as such: no change left;
//   - ACL: orders are 1..n, record 1 is the root, each record's prev is its predecessor, the heads
//     entry names exactly the last record; BuildAclListWithIdentity succeeds with that head and n
//     records.
func checkDurable(w *World, d *Dump) (problems []string) {
	fx := w.fx
	bad := func(f string, a ...any) { problems = append(problems, fmt.Sprintf(f, a...)) }
	total := 0
	for _, docs := range d.Colls {
		total += len(docs)
	}
	if total == 0 {
		return nil // the state before the space was created
	}
	if err := w.attach(); err != nil {
		bad("space does not reopen: %v", err)
		return
	}
	if len(d.Colls["state"]) != 1 || d.Colls["state"][0].Id != fx.spaceId {
		bad("state collection does not hold exactly the space document")
	}
	byTree := map[string][]rawDoc{}
	for _, c := range d.Colls[objecttree.CollName] {
		t := str(c.V[objecttree.TreeKey])
		byTree[t] = append(byTree[t], c)
	}
	seenAcl := false
	entries := map[string]bool{}
	for _, h := range d.Colls["heads"] {
		entries[h.Id] = true
		heads := strs(h.V["h"])
		if h.Id == fx.aclId {
			seenAcl = true
			checkAcl(w, d, heads, bad)
			continue
		}
		chs := byTree[h.Id]
		if len(chs) == 0 {
			continue // deleted tree: all-or-nothing is decided by the pre/post comparison
		}
		checkTree(w, h.Id, heads, str(h.V["s"]), chs, bad)
	}
	if !seenAcl {
		bad("no heads entry for the ACL")
	}
	if !entries[fx.settingsId] {
		bad("no heads entry for the settings tree")
	}
	for t, chs := range byTree {
		if !entries[t] {
			bad("%d stored changes of tree %s without a heads entry", len(chs), fx.in.get(t))
		}
	}
	return
}

func checkTree(w *World, id string, heads []string, commonSnapshot string, chs []rawDoc, bad func(string, ...any)) {
	in := w.fx.in
	name := in.get(id)
	byId := map[string]rawDoc{}
	for _, c := range chs {
		byId[c.Id] = c
	}
	order := func(c rawDoc) string { return str(c.V[objecttree.OrderKey]) }
	if _, ok := byId[id]; !ok {
		bad("tree %s: root is not stored", name)
	}
	if len(heads) == 0 {
		bad("tree %s: heads entry is empty", name)
	}
	for _, h := range heads {
		if _, ok := byId[h]; !ok {
			bad("tree %s: recorded head %s is not a stored change", name, in.get(h))
		}
	}
	if _, ok := byId[commonSnapshot]; !ok {
		bad("tree %s: recorded common snapshot %s is not stored", name, in.get(commonSnapshot))
	}
	hasChild := map[string]bool{}
	orders := map[string]string{}
	for _, c := range chs {
		if prev, dup := orders[order(c)]; dup {
			bad("tree %s: changes %s and %s share an order id", name, in.get(prev), in.get(c.Id))
		}
		orders[order(c)] = c.Id
		prevs := strs(c.V["p"])
		snap := str(c.V["i"])
		if c.Id == id {
			if snap != "" || len(prevs) != 0 {
				bad("tree %s: root has parents or a snapshot base", name)
			}
			continue
		}
		if len(prevs) == 0 {
			bad("tree %s: change %s has no parents", name, in.get(c.Id))
		}
		for _, p := range prevs {
			pc, ok := byId[p]
			if !ok {
				bad("tree %s: parent %s of stored change %s is not stored", name, in.get(p), in.get(c.Id))
				continue
			}
			hasChild[p] = true
			if !(order(pc) < order(c)) {
				bad("tree %s: stored order of %s is not after its parent %s", name, in.get(c.Id), in.get(p))
			}
		}
		sc, ok := byId[snap]
		if !ok {
			bad("tree %s: snapshot base %s of stored change %s is not stored", name, in.get(snap), in.get(c.Id))
		} else if !(order(sc) < order(c)) {
			bad("tree %s: stored order of %s is not after its snapshot base", name, in.get(c.Id))
		}
	}
	var maximal []string
	for _, c := range chs {
		if !hasChild[c.Id] {
			maximal = append(maximal, c.Id)
		}
	}
	if fmt.Sprint(sortedCopy(maximal)) != fmt.Sprint(sortedCopy(heads)) {
		bad("tree %s: recorded heads %s are not the stored changes without stored children %s", name,
			in.list(sortedCopy(heads)), in.list(sortedCopy(maximal)))
	}
	t, err := w.tree(id)
	if err != nil {
		bad("tree %s: does not reopen: %v", name, err)
		return
	}
	if fmt.Sprint(sortedCopy(t.Heads())) != fmt.Sprint(sortedCopy(heads)) {
		bad("tree %s: reopened object has heads %s, recorded %s", name, in.list(sortedCopy(t.Heads())), in.list(sortedCopy(heads)))
	}
}

func checkAcl(w *World, d *Dump, heads []string, bad func(string, ...any)) {
	in := w.fx.in
	recs := append([]rawDoc{}, d.Colls[w.fx.aclId]...)
	sort.Slice(recs, func(a, b int) bool { return num(recs[a].V["o"]) < num(recs[b].V["o"]) })
	if len(recs) == 0 {
		bad("acl: no stored records")
		return
	}
	for i, r := range recs {
		if num(r.V["o"]) != i+1 {
			bad("acl: record %s has order %d at position %d", in.get(r.Id), num(r.V["o"]), i+1)
		}
		if i == 0 {
			if r.Id != w.fx.aclId {
				bad("acl: first record is not the root")
			}
			continue
		}
		if str(r.V["p"]) != recs[i-1].Id {
			bad("acl: record %s does not point to its stored predecessor", in.get(r.Id))
		}
	}
	last := recs[len(recs)-1].Id
	if len(heads) != 1 || heads[0] != last {
		bad("acl: recorded head %s is not the last stored record %s", in.list(heads), in.get(last))
	}
	if w.acl == nil {
		bad("acl: list was not rebuilt")
		return
	}
	if w.acl.Head().Id != last {
		bad("acl: reopened list has head %s, last stored record is %s", in.get(w.acl.Head().Id), in.get(last))
	}
	if len(w.acl.Records()) != len(recs) {
		bad("acl: reopened list has %d records, storage has %d", len(w.acl.Records()), len(recs))
	}
}

// liveAgrees compares the live objects of a (wrapped) world with what its database holds now.
// Heads and ids only, as the property says: the live tree's heads are the recorded heads and every
// change the live tree holds is stored; the live ACL's head is the recorded head and its records are
// the stored ones.
func liveAgrees(w *World, d *Dump, treeIds []string, withAcl bool) (problems []string) {
	in := w.fx.in
	bad := func(f string, a ...any) { problems = append(problems, fmt.Sprintf(f, a...)) }
	heads := map[string][]string{}
	for _, h := range d.Colls["heads"] {
		heads[h.Id] = strs(h.V["h"])
	}
	stored := map[string]map[string]bool{}
	for _, c := range d.Colls[objecttree.CollName] {
		t := str(c.V[objecttree.TreeKey])
		if stored[t] == nil {
			stored[t] = map[string]bool{}
		}
		stored[t][c.Id] = true
	}
	for _, id := range treeIds {
		t, ok := w.trees[id]
		if !ok {
			continue
		}
		name := in.get(id)
		liveHeads, liveIds, liveDeleted, perr := observeTree(t)
		if perr != "" {
			bad("tree %s: live object unusable: %s", name, perr)
			continue
		}
		if _, exists := heads[id]; exists && liveDeleted != (len(stored[id]) == 0) {
			bad("tree %s: live object deleted=%v but storage holds %d of its changes", name, liveDeleted, len(stored[id]))
			continue
		}
		rec, exists := heads[id]
		if !exists {
			// not (yet) in storage: a deferred tree before its first successful write knows its root only
			stHeads, err := t.Storage().Heads(ctx)
			if err != nil {
				bad("tree %s: live storage object cannot report heads although nothing is stored: %v", name, err)
				continue
			}
			if fmt.Sprint(liveHeads) != fmt.Sprint([]string{id}) || fmt.Sprint(stHeads) != fmt.Sprint([]string{id}) {
				bad("tree %s: nothing stored, but live heads are %s (storage object says %s)", name, in.list(liveHeads), in.list(stHeads))
			}
			continue
		}
		if len(stored[id]) == 0 {
			continue // deleted in storage
		}
		if fmt.Sprint(liveHeads) != fmt.Sprint(sortedCopy(rec)) {
			bad("tree %s: live heads %s, recorded heads %s", name, in.list(liveHeads), in.list(sortedCopy(rec)))
		}
		for _, c := range liveIds {
			if !stored[id][c] {
				bad("tree %s: live object holds change %s which is not stored", name, in.get(c))
			}
		}
	}
	if withAcl && w.acl != nil {
		recs := d.Colls[w.fx.aclId]
		storedRec := map[string]bool{}
		for _, r := range recs {
			storedRec[r.Id] = true
		}
		rec := heads[w.fx.aclId]
		w.acl.RLock()
		head := w.acl.Head().Id
		live := w.acl.Records()
		w.acl.RUnlock()
		if len(rec) != 1 || rec[0] != head {
			bad("acl: live head %s, recorded head %s", in.get(head), in.list(rec))
		}
		for _, r := range live {
			if !storedRec[r.Id] {
				bad("acl: live list holds record %s which is not stored", in.get(r.Id))
			}
		}
		if len(live) != len(recs) {
			bad("acl: live list has %d records, storage has %d", len(live), len(recs))
		}
	}
	return
}

// observeTree reads heads and attached ids of a live tree through its public API.
func observeTree(t objecttree.ObjectTree) (heads []string, ids []string, deleted bool, perr string) {
	defer func() {
		if r := recover(); r != nil {
			perr = fmt.Sprintf("panic: %v", r)
		}
	}()
	t.Lock()
	defer t.Unlock()
	heads = sortedCopy(t.Heads())
	err := t.IterateRoot(nil, func(c *objecttree.Change) bool {
		ids = append(ids, c.Id)
		return true
	})
	if err != nil {
		if err == objecttree.ErrDeleted {
			return heads, nil, true, ""
		}
		perr = err.Error()
	}
	return
}

var _ = list.ErrRecordAlreadyExists
var _ = recordverifier.NewValidateFull
var _ = spacestorage.ErrSpaceStorageExists
