// Package store drives the REAL any-sync persistence code (spacestorage, objecttree storage and
// deferred storage, ACL storage, headstorage) over a REAL any-store/SQLite database wrapped by a
// recording / fault-injecting anystore.DB (wrapdb.go), and decides C10 on it:
//
//	crash oracle: for every storage-call boundary k of every operation, the database files as they are
//	  just before call k (and after the last call) are copied, reopened with the real constructors and
//	  must satisfy the durable-state predicate (oracle.go) and equal the state before or after the op;
//	fault oracle: for every k, on a fork of the pre-state, call k returns an error; afterwards the live
//	  objects must agree with storage and the SAME input must be accepted and lead to the post-state;
//	structure oracle: the fault-free trace is exactly one begin … commit containing every write;
//	correspondence: the recorded trace and every post-crash state are compared with the Lean model
//	  (Store/Tx.lean) — see model.go.
package store

import (
	"errors"
	"fmt"
	"os"
	"sort"
	"strings"
	"sync"
	"time"

	"github.com/anyproto/any-sync/commonspace/object/acl/list"
	"github.com/anyproto/any-sync/commonspace/object/tree/objecttree"
	"github.com/anyproto/any-sync/commonspace/object/tree/treechangeproto"
	"github.com/anyproto/any-sync/commonspace/object/tree/treestorage"
	"github.com/anyproto/any-sync/commonspace/spacestorage"
	"github.com/anyproto/any-sync/consensus/consensusproto"
	"github.com/anyproto/any-sync/util/cidutil"

	"verifharness/internal/corr"
)

const prop = "C10"

const hangAfter = 40 * time.Second

var errHang = errors.New("verif: the operation hangs in a storage call (the write connection was never released)")

func init() { corr.RegisterArea("store", Run) }

// opSpec is one workload operation with its input fixed, so that it can be applied to the main world,
// to any fork of the main world's pre-state, and a second time to the same world (the retry).
type opSpec struct {
	kind    string
	desc    string
	trees   []string // ids of the trees whose live objects the operation touches
	acl     bool     // touches the live ACL
	freshDB bool     // space creation: the pre-state is an empty database
	run     func(w *World) error
	// rejectFirst: the first application is expected to fail before any storage call (validator
	// rejects the change); the second application is the same input with an accepting validator.
	rejectFirst func(w *World) error
	after       func() // bookkeeping on the main world after the fault-free run
	model       *modelOp
	// what the fault-free run on the main world handed to storage.AddAll (captured from the AddResult)
	added []string
	heads []string
	// AddAllNoError: an insert answered with "document exists" is part of the fault-free trace
	allowDupErr bool
}

func safeRun(f func(w *World) error, w *World) (err error) {
	defer func() {
		if r := recover(); r != nil {
			err = fmt.Errorf("panic: %v", r)
		}
	}()
	return f(w)
}

type runner struct {
	r            *corr.Run
	fx           *Fixture
	main         *World
	g            *gen
	ops          []string // descriptions of the operations executed so far (the replayable input)
	dead         bool     // a violation was found: the workload stops
	lastLen      map[string]int
	durableSeen  map[string]bool
	mu           sync.Mutex
	modelOps     []string
	pendingApply bool
}

func Run(r *corr.Run) {
	r.SetRule("a case = one operation of a workload with every storage-call boundary crashed and faulted; non-trivial when the operation issued at least one write")
	sweepStale()
	workloads := r.Pick(60, 3000)
	for wl := 0; wl < workloads && r.TimeLeft(); wl++ {
		runWorkload(r, wl)
	}
}

func runWorkload(r *corr.Run, wl int) {
	fx, err := newFixture()
	if err != nil {
		r.Fatal("fixture: " + err.Error())
	}
	defer fx.cleanup()
	main, err := fx.open(fx.newDir("main"), true)
	if err != nil {
		fx.cleanup()
		r.Fatal(err.Error())
	}
	defer func() { main.close() }()
	rn := &runner{r: r, fx: fx, main: main, lastLen: map[string]int{}}
	rn.g = newGen(rn)
	if r.Ask("reset") != "ok" {
		rn.fatal("model does not reset")
	}
	rn.modelOps = []string{"reset"}
	nOps := 8 + r.Intn(6)
	rn.exec(rn.g.createSpace())
	// directed operations, early so that a loaded machine still reaches them: the first workload of
	// every run carries one remote batch of more than 512 changes and an AddAllNoError with a duplicate,
	// the second a batch of ~50 and a derived child tree; thorough runs keep drawing from the size ladder
	var forced []func() *opSpec
	switch {
	case wl == 0:
		n := []int{513, 600}[r.Intn(2)]
		forced = []func() *opSpec{func() *opSpec { return rn.g.remoteSized(n) }, rn.g.noErrorAdd}
	case wl == 1:
		n := 40 + r.Intn(30)
		forced = []func() *opSpec{func() *opSpec { return rn.g.remoteSized(n) }, rn.g.treeCreateChild}
	case !r.Quick() && wl%5 == 0:
		n := []int{513, 600, 1100, 1537, 511, 512, 1024, 1025}[r.Intn(8)]
		forced = []func() *opSpec{func() *opSpec { return rn.g.remoteSized(n) }}
	}
	at := 1 + r.Intn(2)
	for i := 1; i < nOps && !rn.dead && r.TimeLeft(); i++ {
		var op *opSpec
		if i >= at && len(forced) > 0 {
			op = forced[0]()
			forced = forced[1:]
		} else {
			op = rn.g.next()
		}
		if op == nil {
			continue
		}
		rn.exec(op)
	}
	r.Sample(map[string]any{"workload": wl, "ops": rn.ops})
}

func (rn *runner) violate(sig, stream, desc string) {
	rn.r.Violate(prop, sig, stream, desc, append([]string{}, rn.ops...))
	rn.r.Count("violation." + stream)
	if sig == "" {
		rn.dead = true
	}
}

// attempt runs the operation once on w with every boundary imaged (if img) and call `inject`
// failing (if ≥ 0). It returns the recorded trace, the image directories and the operation's error.
func (rn *runner) attempt(w *World, f func(w *World) error, img bool, inject int) (evs []Event, imgs []image, err error) {
	nIns := 0
	w.db.rec.start(func(k int, ev Event) error {
		if img && rn.wantImage(k, ev, nIns) {
			d := rn.fx.newDir("img")
			if e := copyImage(w.dir, d); e != nil {
				rn.fatal("copy image: " + e.Error())
			}
			imgs = append(imgs, image{k, d})
		}
		if ev.Kind == evInsert {
			nIns++
		}
		if k == inject && ev.Kind != evRollback && ev.Kind != evSRollback {
			return errInjected
		}
		return nil
	})
	// a leaked write transaction (lost rollback/commit, or a write issued outside the open transaction)
	// blocks the single write connection forever: detect the hang instead of waiting for it
	done := make(chan error, 1)
	go func() { done <- safeRun(f, w) }()
	select {
	case err = <-done:
	case <-time.After(hangAfter):
		w.hung = true
		err = errHang
	}
	evs = w.db.rec.stop()
	if img {
		d := rn.fx.newDir("img")
		if e := copyImage(w.dir, d); e != nil {
			rn.fatal("copy image: " + e.Error())
		}
		imgs = append(imgs, image{len(evs), d})
	}
	return
}

// image is the copy of the database files taken just before storage call k (k = len(trace): after the
// last call).
type image struct {
	k   int
	dir string
}

// wantImage is the size-aware sampling of crash boundaries. Every boundary that is not an insert is
// imaged (begin, savepoints, DDL, upserts, deletes, commit — and any transaction control that shows
// up in the middle of a trace); of the inserts the first 24, those around every multiple of 512
// inserts (batch sizes at which a chunked write would split), and a random 1 in 48 of the rest. The
// boundary just after the last insert is the one before the heads upsert, hence always imaged.
func (rn *runner) wantImage(k int, ev Event, nIns int) bool {
	if ev.Kind != evInsert || nIns < 24 {
		return true
	}
	if m := nIns % 512; m >= 508 || m <= 4 {
		return true
	}
	return rn.r.Intn(48) == 0
}

// sampleFaults picks the calls that are failed: all of them for ordinary traces; for long ones every
// non-insert call, the first and last inserts, the inserts around every multiple of 512, and a few
// random ones.
func (rn *runner) sampleFaults(evs []Event) (ks []int) {
	var all []int
	for k := range evs {
		if evs[k].Kind != evRollback && evs[k].Kind != evSRollback {
			all = append(all, k)
		}
	}
	if len(all) <= 40 {
		return all
	}
	nInsTotal := 0
	for _, e := range evs {
		if e.Kind == evInsert {
			nInsTotal++
		}
	}
	nIns := 0
	var rest []int
	for _, k := range all {
		if evs[k].Kind != evInsert {
			ks = append(ks, k)
			continue
		}
		m := nIns % 512
		switch {
		case nIns < 1 || nIns >= nInsTotal-1, nIns >= 510 && (m >= 511 || m <= 1):
			ks = append(ks, k)
		default:
			rest = append(rest, k)
		}
		nIns++
	}
	extra := rn.r.Pick(2, 12)
	for _, i := range rn.r.Perm(len(rest)) {
		if extra == 0 {
			break
		}
		ks = append(ks, rest[i])
		extra--
	}
	sort.Ints(ks)
	return
}

// fatal: the harness itself is broken; the workload's temp directory must not outlive the process.
func (rn *runner) fatal(msg string) {
	rn.fx.cleanup()
	rn.r.Fatal(msg)
}

// sweepStale removes temp directories of runs that were killed (older than an hour).
func sweepStale() {
	for _, root := range []string{"/dev/shm", os.TempDir()} {
		ents, err := os.ReadDir(root)
		if err != nil {
			continue
		}
		for _, e := range ents {
			if !e.IsDir() || !strings.HasPrefix(e.Name(), "verif-store-") {
				continue
			}
			if info, err := e.Info(); err == nil && time.Since(info.ModTime()) > time.Hour {
				os.RemoveAll(root + "/" + e.Name())
			}
		}
	}
}

func (rn *runner) timed(key string) func() {
	t := time.Now()
	return func() { rn.r.CountN("ms."+key, int(time.Since(t).Milliseconds())) }
}

func (rn *runner) dump(w *World) *Dump {
	d, err := dumpDB(w.real, rn.fx)
	if err != nil {
		rn.fatal("dump: " + err.Error())
	}
	return d
}

// classify maps a violation of the fault oracle to the signature of a recorded finding — narrowly:
// by operation kind and by which clause failed.
func classify(op *opSpec, clause string, detail string) string {
	return ""
}

func (rn *runner) exec(op *opSpec) {
	r, fx, main := rn.r, rn.fx, rn.main
	rn.ops = append(rn.ops, op.desc)
	rn.durableSeen = map[string]bool{}
	r.Count("op." + op.kind)
	pre := rn.dump(main)

	// --- (0) validator rejection before any storage call (a failed write without a storage fault)
	if op.rejectFirst != nil {
		evs, _, err := rn.attempt(main, op.rejectFirst, false, -1)
		r.Count("reject.run")
		if err == nil {
			rn.violate("", "reject", op.kind+": a change rejected by its validator was accepted")
			return
		}
		d := rn.dump(main)
		if len(evs) != 0 || d.full() != pre.full() {
			rn.violate("", "reject", op.kind+": validator rejection touched storage: "+d.diff(pre))
			return
		}
		if p := liveAgrees(main, d, op.trees, op.acl); len(p) > 0 {
			rn.violate(classify(op, "live", p[0]), "fault-live", fmt.Sprintf("%s: after the validator rejected the change: %s", op.kind, p[0]))
			if rn.dead {
				return
			}
		}
	}

	// --- (1) the run with an image at every boundary; sometimes a fault is injected first, in place,
	// on the evolved live objects — the fault-free run is then the retry of the same input
	faulted := false
	inject := -1
	if !op.freshDB && op.rejectFirst == nil && r.Chance(35) {
		n := rn.lastLen[op.kind]
		if n == 0 {
			n = 4
		}
		inject = r.Intn(n)
	}
	tRun := rn.timed("run+image")
	evs, imgs, err := rn.attempt(main, op.run, true, inject)
	tRun()
	defer func() {
		for _, im := range imgs {
			os.RemoveAll(im.dir)
		}
	}()
	if k := injectedAt(evs); k >= 0 {
		faulted = true
		r.Count("fault.inplace")
		d := rn.dump(main)
		if err == nil {
			rn.violate("", "fault-state", fmt.Sprintf("%s: a storage fault at call %d (%s) was swallowed: the operation reported success", op.kind, k, evNames[evs[k].Kind]))
			return
		}
		if d.full() != pre.full() {
			rn.violate("", "fault-state", fmt.Sprintf("%s: after a fault at call %d (%s) the durable state changed: %s", op.kind, k, evNames[evs[k].Kind], d.diff(pre)))
			return
		}
		if p := liveAgrees(main, d, op.trees, op.acl); len(p) > 0 {
			rn.violate(classify(op, "live", p[0]), "fault-live", fmt.Sprintf("%s: after a fault at call %d (%s): %s", op.kind, k, evNames[evs[k].Kind], p[0]))
			if rn.dead {
				return
			}
		}
		for _, im := range imgs {
			os.RemoveAll(im.dir)
		}
		evs, imgs, err = rn.attempt(main, op.run, true, -1)
	}
	if err != nil {
		if faulted {
			rn.violate(classify(op, "retry", err.Error()), "fault-retry", fmt.Sprintf("%s: the same input is rejected after a failed write: %v", op.kind, err))
			return
		}
		if err == errHang {
			rn.violate("", "hang", fmt.Sprintf("%s: %v; trace so far: %s", op.kind, err, renderTrace(evs, fx.in.get, fx.collName)))
			return
		}
		rn.fatal(fmt.Sprintf("operation %q failed on the fault-free run: %v", op.desc, err))
	}
	rn.lastLen[op.kind] = len(evs)
	post := rn.dump(main)
	trace := renderTrace(evs, fx.in.get, fx.collName)
	r.Case(op.kind+" "+trace, len(evs) > 0)
	r.CountN("boundaries", len(evs)+1)
	r.CountN("boundaries.imaged", len(imgs))
	r.Count(fmt.Sprintf("trace.len.%02d", min(len(evs), 30)))

	// live objects agree with storage after success
	if p := liveAgrees(main, post, op.trees, op.acl); len(p) > 0 {
		rn.violate("", "live-after-success", fmt.Sprintf("%s: %s", op.kind, p[0]))
		return
	}

	// --- (3) crash images
	tImg := rn.timed("images")
	seen := map[string][2]string{}
	var states []imgState // boundary, label ("pre" | "post") and model-style digest per image
	for _, im := range imgs {
		h := imageHash(im.dir)
		st, ok := seen[h]
		if ok {
			r.Count("image.deduped")
		} else {
			st = rn.checkImage(op, im.k, len(evs), im.dir, pre, post)
			if rn.dead {
				return
			}
			seen[h] = st
		}
		states = append(states, imgState{im.k, st[0], st[1]})
	}

	tImg()
	// structure, stated directly on the recorded calls
	if msg := singleTx(evs, op.allowDupErr); msg != "" {
		rn.violate("", "single-tx", fmt.Sprintf("%s: %s; trace: %s", op.kind, msg, trace))
		return
	}

	// --- (4) correspondence with the Lean model: trace shape and post-crash state at every boundary
	if op.model != nil {
		rn.checkModel(op, trace, evs, states, post)
		if rn.dead {
			return
		}
	}

	// --- (5) every call k faulted on a fork of the pre-state, then the same input again
	defer rn.timed("faults")()
	ks := rn.sampleFaults(evs)
	r.CountN("fault.calls.sampled", len(ks))
	if len(ks) == 0 {
		rn.applyModel(post)
		if op.after != nil {
			op.after()
		}
		return
	}
	postSem := post.sem(fx)
	// one fork takes every fault in turn; isolated single-fault forks for a sample of the calls (all of
	// them in the thorough tier)
	jobs := [][]int{ks}
	if r.Quick() {
		nSingle := 2
		if len(evs) > 40 {
			nSingle = 1
		}
		for _, i := range r.Perm(len(ks))[:min(nSingle, len(ks))] {
			jobs = append(jobs, []int{ks[i]})
		}
	} else {
		for _, k := range ks {
			jobs = append(jobs, []int{k})
		}
	}
	results := make([]*forkResult, len(jobs))
	const workers = 4
	for lo := 0; lo < len(jobs) && (lo == 0 || r.TimeLeft()); lo += workers {
		hi := min(lo+workers, len(jobs))
		var wg sync.WaitGroup
		for i := lo; i < hi; i++ {
			wg.Add(1)
			go func(i int) {
				defer wg.Done()
				results[i] = rn.faultOnFork(op, jobs[i], evs, imgs[0].dir, pre, post, postSem)
			}(i)
		}
		wg.Wait()
	}
	for _, fr := range results {
		if fr == nil {
			continue
		}
		if fr.fatal != "" {
			rn.fatal(fr.fatal)
		}
		for _, c := range fr.counts {
			r.Count(c)
		}
		for _, v := range fr.viols {
			rn.violate(v.sig, v.stream, v.desc)
		}
		if rn.dead {
			return
		}
	}
	// the model's fault semantics (error path rolls back) against what the real code left behind
	if op.model != nil && len(results) > 0 && results[0] != nil {
		rn.checkModelFaults(op, results[0].faults)
		if rn.dead {
			return
		}
	}
	rn.applyModel(post)
	if rn.dead {
		return
	}
	if op.after != nil {
		op.after()
	}
}

func injectedAt(evs []Event) int {
	for i, e := range evs {
		if e.Err == errInjected.Error() {
			return i
		}
	}
	return -1
}

// checkImage reopens one crash image with the real constructors.
func (rn *runner) checkImage(op *opSpec, k, n int, dir string, pre, post *Dump) (res [2]string) {
	r := rn.r
	r.Count("image.reopened")
	w, err := rn.fx.open(dir, false)
	if err != nil {
		rn.violate("", "crash-reopen", fmt.Sprintf("%s: crash image at boundary %d/%d does not open: %v", op.kind, k, n, err))
		return
	}
	defer w.close()
	d, err := dumpDB(w.real, rn.fx)
	if err != nil {
		rn.violate("", "crash-reopen", fmt.Sprintf("%s: crash image at boundary %d/%d cannot be read: %v", op.kind, k, n, err))
		return
	}
	st := ""
	switch d.full() {
	case pre.full():
		st = "pre"
	case post.full():
		st = "post"
	default:
		rn.violate("", "crash-atomic", fmt.Sprintf("%s: crash image at boundary %d/%d is neither the state before nor after the operation: vs pre {%s} vs post {%s}",
			op.kind, k, n, d.diff(pre), d.diff(post)))
		return
	}
	r.Count("image." + st)
	if p := checkDurable(w, d); len(p) > 0 {
		rn.violate("", "crash-durable", fmt.Sprintf("%s: crash image at boundary %d/%d (%s-state): %s", op.kind, k, n, st, strings.Join(p, "; ")))
	}
	return [2]string{st, d.modelDigest(rn.fx)}
}

type viol struct{ sig, stream, desc string }

// forkResult is what one faulted fork reports; forks run concurrently and are merged in call order.
type forkResult struct {
	counts []string
	viols  []viol
	fatal  string
	faults map[int]string // call k → model-style digest of the durable state found after the fault at k
}

func (fr *forkResult) count(k string) { fr.counts = append(fr.counts, k) }
func (fr *forkResult) violate(sig, stream, desc string) bool {
	fr.viols = append(fr.viols, viol{sig, stream, desc})
	return sig == ""
}

// faultOnFork: on a fork of the pre-state (database copied, reopened, live objects rebuilt with the
// real constructors) storage call k fails; then the same input is applied again.
//
// ks lists the calls to fail, one after the other, on the same fork: each further attempt is at the same
// time the retry of the previous failed one up to its own fault; after the last one the input is applied
// without a fault and must lead to the post-state. A single-element ks is the isolated single-fault case.
func (rn *runner) faultOnFork(op *opSpec, ks []int, evs []Event, preImg string, pre, post *Dump, postSem string) (fr *forkResult) {
	fr = &forkResult{faults: map[int]string{}}
	fx := rn.fx
	dir := fx.newDir("fork")
	defer os.RemoveAll(dir)
	if err := copyImage(preImg, dir); err != nil {
		fr.fatal = "fork copy: " + err.Error()
		return
	}
	w, err := fx.open(dir, true)
	if err != nil {
		fr.fatal = "fork open: " + err.Error()
		return
	}
	defer func() { w.close() }()
	if !op.freshDB {
		if err := w.attach(); err != nil {
			fr.fatal = "fork attach: " + err.Error()
			return
		}
	}
	fr.count("fault.fork")
	if len(ks) == 1 {
		fr.count("fault.fork.single")
	}
	if op.rejectFirst != nil {
		// the fork must be in the same live situation as the main world was: rejected once
		_ = safeRun(op.rejectFirst, w)
	}
	at := ""
	for i, k := range ks {
		ev := evs[k]
		prevAt := at
		at = fmt.Sprintf("call %d (%s)", k, evNames[ev.Kind])
		fr.count("fault.at." + evNames[ev.Kind])
		if i > 0 && op.freshDB {
			// a failed space creation returns no object; the caller's next attempt starts from a fresh handle
			if err := w.reopenHandle(); err != nil {
				fr.violate("", "fault-retry", fmt.Sprintf("%s: database does not reopen after a fault at %s: %v", op.kind, prevAt, err))
				return
			}
		}
		evs1, _, err1 := rn.attempt(w, op.run, false, k)
		if injectedAt(evs1) != k {
			if err1 == errHang || (err1 != nil && i > 0) {
				fr.violate(classify(op, "retry", err1.Error()), "fault-retry", fmt.Sprintf("%s: after a fault at %s the same input is rejected: %v", op.kind, prevAt, err1))
				return
			}
			fr.fatal = fmt.Sprintf("%s: fork did not reach call %d (err=%v, trace %s)", op.desc, k, err1, renderTrace(evs1, fx.in.get, fx.collName))
			return
		}
		d1, err := dumpDB(w.real, fx)
		if err != nil {
			fr.fatal = "dump: " + err.Error()
			return
		}
		if d1.full() != pre.full() {
			fr.violate("", "fault-state", fmt.Sprintf("%s: after a fault at %s (err=%v) the durable state is not the state before the operation: %s", op.kind, at, err1, d1.diff(pre)))
			return
		}
		if err1 == nil {
			fr.violate("", "fault-state", fmt.Sprintf("%s: a storage fault at %s was swallowed: the operation reported success", op.kind, at))
			return
		}
		fr.faults[k] = d1.modelDigest(fx)
		if p := liveAgrees(w, d1, op.trees, op.acl); len(p) > 0 {
			fr.violate(classify(op, "live", p[0]), "fault-live", fmt.Sprintf("%s: after a fault at %s: %s", op.kind, at, p[0]))
			return
		}
	}
	if op.freshDB {
		// a failed space creation returns no object; the caller's next attempt starts from a fresh handle
		if err := w.reopenHandle(); err != nil {
			fr.violate("", "fault-retry", fmt.Sprintf("%s: database does not reopen after a fault at %s: %v", op.kind, at, err))
			return
		}
	}
	_, _, err2 := rn.attempt(w, op.run, false, -1)
	if err2 != nil {
		fr.violate(classify(op, "retry", err2.Error()), "fault-retry", fmt.Sprintf("%s: after a fault at %s the same input is rejected: %v", op.kind, at, err2))
		return
	}
	d2, err := dumpDB(w.real, fx)
	if err != nil {
		fr.fatal = "dump: " + err.Error()
		return
	}
	if sem := d2.sem(fx); sem != postSem {
		fr.violate(classify(op, "retry-state", ""), "fault-retry", fmt.Sprintf("%s: after a fault at %s and a successful retry storage holds {%s}, the operation's post-state is {%s}", op.kind, at, sem, postSem))
		return
	}
	if p := liveAgrees(w, d2, op.trees, op.acl); len(p) > 0 {
		if fr.violate(classify(op, "live", p[0]), "fault-live", fmt.Sprintf("%s: after a fault at %s and a successful retry: %s", op.kind, at, p[0])) {
			return
		}
	}
	// the retried state as a fresh process finds it (once per distinct state)
	rn.mu.Lock()
	seen := rn.durableSeen[postSem]
	rn.durableSeen[postSem] = true
	rn.mu.Unlock()
	if seen {
		fr.count("fault.durable.deduped")
		return
	}
	img := fx.newDir("img")
	defer os.RemoveAll(img)
	if err := copyImage(w.dir, img); err != nil {
		fr.fatal = "copy: " + err.Error()
		return
	}
	pw, err := fx.open(img, false)
	if err != nil {
		fr.violate("", "fault-retry", fmt.Sprintf("%s: database does not reopen after fault+retry: %v", op.kind, err))
		return
	}
	defer pw.close()
	pd, err := dumpDB(pw.real, fx)
	if err != nil {
		fr.fatal = "dump: " + err.Error()
		return
	}
	fr.count("fault.durable.reopened")
	if p := checkDurable(pw, pd); len(p) > 0 {
		fr.violate(classify(op, "retry-state", p[0]), "fault-retry", fmt.Sprintf("%s: after a fault at %s and a successful retry: %s", op.kind, at, strings.Join(p, "; ")))
	}
	return
}

// ---------------------------------------------------------------------------------------------
// helpers shared by the generators

func wrapAclRecord(rawRec *consensusproto.RawRecord) *consensusproto.RawRecordWithId {
	payload, err := rawRec.MarshalVT()
	if err != nil {
		panic(err)
	}
	id, err := cidutil.NewCidFromBytes(payload)
	if err != nil {
		panic(err)
	}
	return &consensusproto.RawRecordWithId{Payload: payload, Id: id}
}

var (
	_ = errors.Is
	_ = list.ErrRecordAlreadyExists
	_ = treestorage.ErrTreeExists
	_ = spacestorage.ErrSpaceStorageExists
	_ *treechangeproto.RawTreeChangeWithId
	_ = objecttree.CollName
)
