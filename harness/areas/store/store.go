// Package store drives the REAL any-sync persistence code (spacestorage, objecttree storage and
// deferred storage, ACL storage, headstorage) over a REAL any-store/SQLite database wrapped by a
// recording / fault-injecting anystore.DB (wrapdb.go), and decides C10 on it:
//
//	crash oracle: for every storage-call boundary k of every operation, the database files as they are
//	  just before call k (and after the last call) are copied, reopened with the real constructors and
//	  must satisfy the durable-state predicate (oracle.go) and equal the state before or after the op;
//	fault oracle: for every k, on a fork of the pre-state, call k returns an error; afterwards the live
//	  objects must agree with storage and the SAME input must be accepted and lead to the post-state;
//	structure oracle: the fault-free trace is exactly one begin … commit containing every write;
//	correspondence: the recorded trace and every post-crash state are compared with the Lean model
//	  (Store/Tx.lean) — see model.go.
package store

import (
	"errors"
	"fmt"
	"os"
	"strings"

	"github.com/anyproto/any-sync/commonspace/object/acl/list"
	"github.com/anyproto/any-sync/commonspace/object/tree/objecttree"
	"github.com/anyproto/any-sync/commonspace/object/tree/treechangeproto"
	"github.com/anyproto/any-sync/commonspace/object/tree/treestorage"
	"github.com/anyproto/any-sync/commonspace/spacestorage"
	"github.com/anyproto/any-sync/consensus/consensusproto"
	"github.com/anyproto/any-sync/util/cidutil"

	"verifharness/internal/corr"
)

const prop = "C10"

func init() { corr.RegisterArea("store", Run) }

// opSpec is one workload operation with its input fixed, so that it can be applied to the main world,
// to any fork of the main world's pre-state, and a second time to the same world (the retry).
type opSpec struct {
	kind    string
	desc    string
	trees   []string // ids of the trees whose live objects the operation touches
	acl     bool     // touches the live ACL
	freshDB bool     // space creation: the pre-state is an empty database
	run     func(w *World) error
	// rejectFirst: the first application is expected to fail before any storage call (validator
	// rejects the change); the second application is the same input with an accepting validator.
	rejectFirst func(w *World) error
	after       func() // bookkeeping on the main world after the fault-free run
	model       *modelOp
}

func safeRun(f func(w *World) error, w *World) (err error) {
	defer func() {
		if r := recover(); r != nil {
			err = fmt.Errorf("panic: %v", r)
		}
	}()
	return f(w)
}

type runner struct {
	r           *corr.Run
	fx          *Fixture
	main        *World
	g           *gen
	ops         []string // descriptions of the operations executed so far (the replayable input)
	dead        bool     // a violation was found: the workload stops
	lastLen     map[string]int
	durableSeen map[string]bool
}

func Run(r *corr.Run) {
	r.SetRule("a case = one operation of a workload with every storage-call boundary crashed and faulted; non-trivial when the operation issued at least one write")
	workloads := r.Pick(6, 200)
	for wl := 0; wl < workloads && r.TimeLeft(); wl++ {
		runWorkload(r, wl)
	}
}

func runWorkload(r *corr.Run, wl int) {
	fx, err := newFixture()
	if err != nil {
		r.Fatal("fixture: " + err.Error())
	}
	defer fx.cleanup()
	main, err := fx.open(fx.newDir("main"), true)
	if err != nil {
		r.Fatal(err.Error())
	}
	defer func() { main.close() }()
	rn := &runner{r: r, fx: fx, main: main, lastLen: map[string]int{}}
	rn.g = newGen(rn)
	nOps := 8 + r.Intn(6)
	rn.exec(rn.g.createSpace())
	for i := 1; i < nOps && !rn.dead && r.TimeLeft(); i++ {
		op := rn.g.next()
		if op == nil {
			continue
		}
		rn.exec(op)
	}
	r.Sample(map[string]any{"workload": wl, "ops": rn.ops})
}

func (rn *runner) violate(sig, stream, desc string) {
	rn.r.Violate(prop, sig, stream, desc, append([]string{}, rn.ops...))
	rn.r.Count("violation." + stream)
	if sig == "" {
		rn.dead = true
	}
}

// attempt runs the operation once on w with every boundary imaged (if img) and call `inject`
// failing (if ≥ 0). It returns the recorded trace, the image directories and the operation's error.
func (rn *runner) attempt(w *World, f func(w *World) error, img bool, inject int) (evs []Event, imgs []string, err error) {
	w.db.rec.start(func(k int, ev Event) error {
		if img {
			d := rn.fx.newDir("img")
			if e := copyImage(w.dir, d); e != nil {
				rn.r.Fatal("copy image: " + e.Error())
			}
			imgs = append(imgs, d)
		}
		if k == inject && ev.Kind != evRollback && ev.Kind != evSRollback {
			return errInjected
		}
		return nil
	})
	err = safeRun(f, w)
	evs = w.db.rec.stop()
	if img {
		d := rn.fx.newDir("img")
		if e := copyImage(w.dir, d); e != nil {
			rn.r.Fatal("copy image: " + e.Error())
		}
		imgs = append(imgs, d)
	}
	return
}

func (rn *runner) dump(w *World) *Dump {
	d, err := dumpDB(w.real, rn.fx)
	if err != nil {
		rn.r.Fatal("dump: " + err.Error())
	}
	return d
}

// classify maps a violation of the fault oracle to the signature of a recorded finding — narrowly:
// by operation kind and by which clause failed.
func classify(op *opSpec, clause string, detail string) string {
	return ""
}

func (rn *runner) exec(op *opSpec) {
	r, fx, main := rn.r, rn.fx, rn.main
	rn.ops = append(rn.ops, op.desc)
	rn.durableSeen = map[string]bool{}
	r.Count("op." + op.kind)
	pre := rn.dump(main)

	// --- (0) validator rejection before any storage call (a failed write without a storage fault)
	if op.rejectFirst != nil {
		evs, _, err := rn.attempt(main, op.rejectFirst, false, -1)
		r.Count("reject.run")
		if err == nil {
			rn.violate("", "reject", op.kind+": a change rejected by its validator was accepted")
			return
		}
		d := rn.dump(main)
		if len(evs) != 0 || d.full() != pre.full() {
			rn.violate("", "reject", op.kind+": validator rejection touched storage: "+d.diff(pre))
			return
		}
		if p := liveAgrees(main, d, op.trees, op.acl); len(p) > 0 {
			rn.violate(classify(op, "live", p[0]), "fault-live", fmt.Sprintf("%s: after the validator rejected the change: %s", op.kind, p[0]))
			if rn.dead {
				return
			}
		}
	}

	// --- (1) the run with an image at every boundary; sometimes a fault is injected first, in place,
	// on the evolved live objects — the fault-free run is then the retry of the same input
	faulted := false
	inject := -1
	if !op.freshDB && op.rejectFirst == nil && r.Chance(35) {
		n := rn.lastLen[op.kind]
		if n == 0 {
			n = 4
		}
		inject = r.Intn(n)
	}
	evs, imgs, err := rn.attempt(main, op.run, true, inject)
	defer func() {
		for _, d := range imgs {
			os.RemoveAll(d)
		}
	}()
	if k := injectedAt(evs); k >= 0 {
		faulted = true
		r.Count("fault.inplace")
		d := rn.dump(main)
		if err == nil {
			rn.violate("", "fault-state", fmt.Sprintf("%s: a storage fault at call %d (%s) was swallowed: the operation reported success", op.kind, k, evNames[evs[k].Kind]))
			return
		}
		if d.full() != pre.full() {
			rn.violate("", "fault-state", fmt.Sprintf("%s: after a fault at call %d (%s) the durable state changed: %s", op.kind, k, evNames[evs[k].Kind], d.diff(pre)))
			return
		}
		if p := liveAgrees(main, d, op.trees, op.acl); len(p) > 0 {
			rn.violate(classify(op, "live", p[0]), "fault-live", fmt.Sprintf("%s: after a fault at call %d (%s): %s", op.kind, k, evNames[evs[k].Kind], p[0]))
			if rn.dead {
				return
			}
		}
		for _, d := range imgs {
			os.RemoveAll(d)
		}
		evs, imgs, err = rn.attempt(main, op.run, true, -1)
	}
	if err != nil {
		if faulted {
			rn.violate(classify(op, "retry", err.Error()), "fault-retry", fmt.Sprintf("%s: the same input is rejected after a failed write: %v", op.kind, err))
			return
		}
		r.Fatal(fmt.Sprintf("operation %q failed on the fault-free run: %v", op.desc, err))
	}
	rn.lastLen[op.kind] = len(evs)
	post := rn.dump(main)
	trace := renderTrace(evs, fx.in.get, fx.collName)
	r.Case(op.kind+" "+trace, len(evs) > 0)
	r.CountN("boundaries", len(evs)+1)
	r.Count(fmt.Sprintf("trace.len.%02d", min(len(evs), 30)))

	// structure, stated directly on the recorded calls
	if msg := singleTx(evs); msg != "" {
		rn.violate("", "single-tx", fmt.Sprintf("%s: %s; trace: %s", op.kind, msg, trace))
		return
	}
	// live objects agree with storage after success
	if p := liveAgrees(main, post, op.trees, op.acl); len(p) > 0 {
		rn.violate("", "live-after-success", fmt.Sprintf("%s: %s", op.kind, p[0]))
		return
	}

	// --- (3) crash images
	seen := map[string]string{}
	var states []string // "pre" | "post" per image, for the model comparison
	for k, dir := range imgs {
		h := imageHash(dir)
		st, ok := seen[h]
		if ok {
			r.Count("image.deduped")
		} else {
			st = rn.checkImage(op, k, len(evs), dir, pre, post)
			if rn.dead {
				return
			}
			seen[h] = st
		}
		states = append(states, st)
	}

	// --- (4) correspondence with the Lean model: trace shape and post-crash state at every boundary
	if op.model != nil {
		rn.checkModel(op, trace, evs, states)
		if rn.dead {
			return
		}
	}

	// --- (5) every call k faulted on a fork of the pre-state, then the same input again
	for k := range evs {
		if !r.TimeLeft() {
			break
		}
		if evs[k].Kind == evRollback || evs[k].Kind == evSRollback {
			continue
		}
		rn.faultOnFork(op, k, evs[k], imgs[0], pre, post)
		if rn.dead {
			return
		}
	}
	if op.after != nil {
		op.after()
	}
}

func injectedAt(evs []Event) int {
	for i, e := range evs {
		if e.Err == errInjected.Error() {
			return i
		}
	}
	return -1
}

// checkImage reopens one crash image with the real constructors.
func (rn *runner) checkImage(op *opSpec, k, n int, dir string, pre, post *Dump) string {
	r := rn.r
	r.Count("image.reopened")
	w, err := rn.fx.open(dir, false)
	if err != nil {
		rn.violate("", "crash-reopen", fmt.Sprintf("%s: crash image at boundary %d/%d does not open: %v", op.kind, k, n, err))
		return ""
	}
	defer w.close()
	d, err := dumpDB(w.real, rn.fx)
	if err != nil {
		rn.violate("", "crash-reopen", fmt.Sprintf("%s: crash image at boundary %d/%d cannot be read: %v", op.kind, k, n, err))
		return ""
	}
	st := ""
	switch d.full() {
	case pre.full():
		st = "pre"
	case post.full():
		st = "post"
	default:
		rn.violate("", "crash-atomic", fmt.Sprintf("%s: crash image at boundary %d/%d is neither the state before nor after the operation: vs pre {%s} vs post {%s}",
			op.kind, k, n, d.diff(pre), d.diff(post)))
		return ""
	}
	r.Count("image." + st)
	if p := checkDurable(w, d); len(p) > 0 {
		rn.violate("", "crash-durable", fmt.Sprintf("%s: crash image at boundary %d/%d (%s-state): %s", op.kind, k, n, st, strings.Join(p, "; ")))
	}
	return st
}

func (rn *runner) fork(op *opSpec, src string) *World {
	dir := rn.fx.newDir("fork")
	if err := copyImage(src, dir); err != nil {
		rn.r.Fatal("fork copy: " + err.Error())
	}
	w, err := rn.fx.open(dir, true)
	if err != nil {
		rn.r.Fatal("fork open: " + err.Error())
	}
	if !op.freshDB {
		if err := w.attach(); err != nil {
			rn.r.Fatal("fork attach: " + err.Error())
		}
	}
	return w
}

func (rn *runner) faultOnFork(op *opSpec, k int, ev Event, preImg string, pre, post *Dump) {
	r := rn.r
	w := rn.fork(op, preImg)
	defer func() {
		w.close()
		os.RemoveAll(w.dir)
	}()
	at := fmt.Sprintf("call %d (%s)", k, evNames[ev.Kind])
	r.Count("fault.fork")
	r.Count("fault.at." + evNames[ev.Kind])
	if op.rejectFirst != nil {
		// the fork must be in the same live situation as the main world was: rejected once
		_ = safeRun(op.rejectFirst, w)
	}
	evs1, _, err1 := rn.attempt(w, op.run, false, k)
	if injectedAt(evs1) != k {
		r.Fatal(fmt.Sprintf("%s: fork did not reach call %d (trace %s)", op.desc, k, renderTrace(evs1, rn.fx.in.get, rn.fx.collName)))
	}
	d1 := rn.dump(w)
	switch {
	case d1.full() == pre.full():
	case d1.full() == post.full() && err1 == nil:
		r.Count("fault.swallowed")
	default:
		rn.violate("", "fault-state", fmt.Sprintf("%s: after a fault at %s (err=%v) the durable state is not the state before the operation: %s", op.kind, at, err1, d1.diff(pre)))
		return
	}
	if err1 == nil {
		rn.violate("", "fault-state", fmt.Sprintf("%s: a storage fault at %s was swallowed: the operation reported success", op.kind, at))
		return
	}
	if p := liveAgrees(w, d1, op.trees, op.acl); len(p) > 0 {
		rn.violate(classify(op, "live", p[0]), "fault-live", fmt.Sprintf("%s: after a fault at %s: %s", op.kind, at, p[0]))
		if rn.dead {
			return
		}
	}
	if op.freshDB {
		// a failed space creation returns no object; the caller's next attempt starts from a fresh handle
		if err := w.reopenHandle(); err != nil {
			rn.violate("", "fault-retry", fmt.Sprintf("%s: database does not reopen after a fault at %s: %v", op.kind, at, err))
			return
		}
	}
	_, _, err2 := rn.attempt(w, op.run, false, -1)
	if err2 != nil {
		rn.violate(classify(op, "retry", err2.Error()), "fault-retry", fmt.Sprintf("%s: after a fault at %s the same input is rejected: %v", op.kind, at, err2))
		return
	}
	d2 := rn.dump(w)
	if d2.sem(rn.fx) != post.sem(rn.fx) {
		rn.violate(classify(op, "retry-state", ""), "fault-retry", fmt.Sprintf("%s: after a fault at %s and a successful retry storage holds {%s}, the operation's post-state is {%s}", op.kind, at, d2.sem(rn.fx), post.sem(rn.fx)))
		return
	}
	if p := liveAgrees(w, d2, op.trees, op.acl); len(p) > 0 {
		rn.violate(classify(op, "live", p[0]), "fault-live", fmt.Sprintf("%s: after a fault at %s and a successful retry: %s", op.kind, at, p[0]))
		if rn.dead {
			return
		}
	}
	// the retried state as a fresh process finds it (once per distinct state)
	if rn.durableSeen[d2.full()] {
		r.Count("fault.durable.deduped")
		return
	}
	rn.durableSeen[d2.full()] = true
	img := rn.fx.newDir("img")
	defer os.RemoveAll(img)
	if err := copyImage(w.dir, img); err != nil {
		r.Fatal("copy: " + err.Error())
	}
	pw, err := rn.fx.open(img, false)
	if err != nil {
		rn.violate("", "fault-retry", fmt.Sprintf("%s: database does not reopen after fault+retry: %v", op.kind, err))
		return
	}
	defer pw.close()
	pd, err := dumpDB(pw.real, rn.fx)
	if err != nil {
		r.Fatal("dump: " + err.Error())
	}
	if p := checkDurable(pw, pd); len(p) > 0 {
		rn.violate(classify(op, "retry-state", p[0]), "fault-retry", fmt.Sprintf("%s: after a fault at %s and a successful retry: %s", op.kind, at, strings.Join(p, "; ")))
	}
}

// ---------------------------------------------------------------------------------------------
// helpers shared by the generators

func wrapAclRecord(rawRec *consensusproto.RawRecord) *consensusproto.RawRecordWithId {
	payload, err := rawRec.MarshalVT()
	if err != nil {
		panic(err)
	}
	id, err := cidutil.NewCidFromBytes(payload)
	if err != nil {
		panic(err)
	}
	return &consensusproto.RawRecordWithId{Payload: payload, Id: id}
}

var (
	_ = errors.Is
	_ = list.ErrRecordAlreadyExists
	_ = treestorage.ErrTreeExists
	_ = spacestorage.ErrSpaceStorageExists
	_ *treechangeproto.RawTreeChangeWithId
	_ = objecttree.CollName
)
