package deletion

import (
	"context"
	"fmt"
	"sync/atomic"
	"time"

	"github.com/anyproto/any-sync/app"
	"github.com/anyproto/any-sync/commonspace/config"
	"github.com/anyproto/any-sync/commonspace/credentialprovider"
	"github.com/anyproto/any-sync/commonspace/headsync"
	"github.com/anyproto/any-sync/commonspace/headsync/headstorage"
	"github.com/anyproto/any-sync/commonspace/headsync/statestorage"
	"github.com/anyproto/any-sync/commonspace/object/acl/syncacl"
	"github.com/anyproto/any-sync/commonspace/object/keyvalue/kvinterfaces"
	"github.com/anyproto/any-sync/commonspace/object/treesyncer"
	"github.com/anyproto/any-sync/commonspace/peermanager"
	"github.com/anyproto/any-sync/commonspace/spacestate"
	"github.com/anyproto/any-sync/commonspace/spacestorage"
	"github.com/anyproto/any-sync/net/peer"
	"github.com/anyproto/any-sync/nodeconf"
)

// The REAL headsync component (headsync.New → Init → Run: diffSyncer subscription with its headUpdater
// goroutine, FillDiff, periodic sync) runs next to the directly wired DiffManager that the model
// correspondence uses. Its collaborators that head sync never calls here are nil-embedded stubs.

type stubConfig struct{}

func (stubConfig) Init(a *app.App) error   { return nil }
func (stubConfig) Name() string            { return "config" }
func (stubConfig) GetSpace() config.Config { return config.Config{SyncPeriod: 0} }

type stubNodeConf struct{ nodeconf.NodeConf }

func (stubNodeConf) Init(a *app.App) error { return nil }
func (stubNodeConf) Name() string          { return nodeconf.CName }

type stubPeerManager struct{ peermanager.PeerManager }

func (stubPeerManager) Init(a *app.App) error { return nil }
func (stubPeerManager) Name() string          { return peermanager.CName }
func (stubPeerManager) GetResponsiblePeers(ctx context.Context) ([]peer.Peer, error) {
	return nil, nil
}
func (stubPeerManager) KeepAlive(ctx context.Context) {}

type stubCred struct {
	credentialprovider.CredentialProvider
}

func (stubCred) Init(a *app.App) error { return nil }
func (stubCred) Name() string          { return credentialprovider.CName }

type stubTreeSyncer struct{ treesyncer.TreeSyncer }

func (stubTreeSyncer) Init(a *app.App) error { return nil }
func (stubTreeSyncer) Name() string          { return treesyncer.CName }

type stubKV struct{ kvinterfaces.KeyValueService }

func (stubKV) Init(a *app.App) error { return nil }
func (stubKV) Name() string          { return kvinterfaces.CName }

type namedSyncAcl struct{ *fakeSyncAcl }

func (namedSyncAcl) Init(a *app.App) error { return nil }
func (namedSyncAcl) Name() string          { return syncacl.CName }

// hookStorage is the space storage handed to head sync: identical to the real one except that the write of
// the space hash at the end of FillDiff (the index has been filled by then) is a schedule point.
type hookStorage struct {
	spacestorage.SpaceStorage
	w *world
}

func (h *hookStorage) StateStorage() statestorage.StateStorage {
	return &hookState{StateStorage: h.SpaceStorage.StateStorage(), w: h.w}
}

type hookState struct {
	statestorage.StateStorage
	w *world
}

func (h *hookState) SetHash(ctx context.Context, hash string) error {
	if f := h.w.onFillDiff; f != nil {
		h.w.onFillDiff = nil
		f()
	}
	return h.StateStorage.SetHash(ctx, hash)
}

// startHeadSync runs the real component over the local storage.
func (w *world) startHeadSync() error {
	a := new(app.App)
	a.Register(&spacestate.SpaceState{SpaceId: w.spaceId, SpaceIsClosed: &atomic.Bool{}, TreesUsed: &atomic.Int32{}})
	a.Register(stubConfig{})
	a.Register(namedSyncAcl{&fakeSyncAcl{acl: w.local.acl}})
	a.Register(stubNodeConf{})
	a.Register(&hookStorage{SpaceStorage: w.local.st, w: w})
	a.Register(stubPeerManager{})
	a.Register(stubCred{})
	a.Register(stubTreeSyncer{})
	a.Register(w.delState)
	a.Register(stubKV{})
	w.hs = headsync.New()
	if err := w.hs.Init(a); err != nil {
		return err
	}
	return w.hs.Run(ctx)
}

func (w *world) stopHeadSync() {
	if w.hs != nil {
		w.hs.Close(ctx)
		w.hs = nil
	}
}

// hsBarrier waits until the real head-update queue (FIFO) has processed everything written so far: a fresh
// sentinel entry is written and awaited in the index.
func (w *world) hsBarrier() error {
	w.sentinel++
	id := fmt.Sprintf("verif-sentinel-%d", w.sentinel)
	if err := w.local.st.HeadStorage().UpdateEntry(ctx, headstorage.HeadsUpdate{Id: id, Heads: []string{"h"}}); err != nil {
		return err
	}
	deadline := time.Now().Add(30 * time.Second)
	for time.Now().Before(deadline) {
		for _, x := range w.hs.AllIds() {
			if x == id {
				return nil
			}
		}
		time.Sleep(200 * time.Microsecond)
	}
	return fmt.Errorf("head-update queue of the real head sync did not deliver a sentinel update within 30 s")
}
