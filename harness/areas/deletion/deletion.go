package deletion

import (
	"context"
	"errors"
	"fmt"
	"sort"
	"strings"
	"time"

	anystore "github.com/anyproto/any-store"

	"github.com/anyproto/any-sync/commonspace/deletionmanager"
	"github.com/anyproto/any-sync/commonspace/headsync/headstorage"
	"github.com/anyproto/any-sync/commonspace/object/tree/objecttree"
	"github.com/anyproto/any-sync/commonspace/object/tree/synctree"
	"github.com/anyproto/any-sync/commonspace/object/tree/treechangeproto"
	"github.com/anyproto/any-sync/commonspace/object/tree/treestorage"
	"github.com/anyproto/any-sync/commonspace/settings"
	"github.com/anyproto/any-sync/commonspace/settings/settingsstate"
	"github.com/anyproto/any-sync/commonspace/spacestorage"

	"verifharness/internal/corr"
)

const prop = "C15"

// sigFetchRace is the signature of F-delete-fetch-race: a remote fetch whose tombstone check
// passed, a deletion recorded and carried out by the deletion worker while the request was in
// flight, then the response creating the storage.
const sigFetchRace = "F-delete-fetch-race"

func errEnum(err error) string {
	switch {
	case err == nil:
		return "ok"
	case errors.Is(err, spacestorage.ErrTreeStorageAlreadyDeleted):
		return "deleted"
	case errors.Is(err, treestorage.ErrTreeExists):
		return "exists"
	case errors.Is(err, objecttree.ErrParentNotFound):
		return "noparent"
	case errors.Is(err, treestorage.ErrUnknownTreeId):
		return "unknown"
	case errors.Is(err, synctree.ErrSyncTreeDeleted):
		return "treedeleted"
	case errors.Is(err, settings.ErrAlreadyDeleted):
		return "already"
	case errors.Is(err, settings.ErrCantDeleteDerivedObject):
		return "derived"
	case errors.Is(err, anystore.ErrDocNotFound):
		return "notfound"
	case errors.Is(err, errAborted):
		return "aborted"
	}
	return "err:" + strings.ReplaceAll(err.Error(), " ", "_")
}

type record struct {
	rid    int
	realId string
	ids    []int
	snap   []int
	isSnap bool
	prev   []int // parent records (rids)
}

type objObs struct {
	entry  bool
	status int
	adv    bool
	stored bool
	mirror byte // '-', 'q', 'd'
	live   bool
	parent bool // heads entry carries the parent id
	advHS  bool // advertised by the REAL headsync component (after its update queue drained)
}

type caseRun struct {
	r       *corr.Run
	w       *world
	n       int
	parents []int
	ops     []string // model-protocol lines of this case (for replay files)

	recs     []*record // index = rid; rid 0 = the settings root
	ridOf    map[string]int
	attached map[int]bool // records attached to the local settings tree

	prev        []objObs
	prevDeleted map[int]bool
	tombstoned  []bool // oracle memory: id has been seen tombstoned
	raceTaint   []bool // id went through the exact F-delete-fetch-race schedule
	fetchStatus int    // status of the id when its parked fetch started
	workerRan   bool   // deletion worker ran while the fetch was parked
	finishing   int    // object of the parked fetch being finished
	bad         bool
}

func (c *caseRun) ask(line string) string {
	c.ops = append(c.ops, line)
	return c.r.Ask(line)
}

func (c *caseRun) violate(sig, stream, desc string) {
	c.bad = true
	c.r.Violate(prop, sig, stream, desc, append([]string{}, c.ops...))
	c.r.Count("violation." + stream)
}

func showInts(l []int) string {
	if len(l) == 0 {
		return "-"
	}
	s := make([]string, len(l))
	for i, v := range l {
		s[i] = fmt.Sprint(v)
	}
	return strings.Join(s, ",")
}

func (c *caseRun) idxs(ids []string) []int {
	var r []int
	seen := map[int]bool{}
	for _, id := range ids {
		k, ok := c.w.byId[id]
		if !ok {
			k = 900 // never happens: only catalogue ids are used
		}
		if !seen[k] {
			seen[k] = true
			r = append(r, k)
		}
	}
	sort.Ints(r)
	return r
}

// observe reads the real state of every catalogue object.
func (c *caseRun) observe() []objObs {
	w := c.w
	w.obs.drain()
	adv := map[string]bool{}
	for _, id := range w.dm.AllIds() {
		adv[id] = true
	}
	if err := w.hsBarrier(); err != nil {
		c.violate("", "tombstoned_not_advertised", err.Error())
	}
	advHS := map[string]bool{}
	for _, id := range w.hs.AllIds() {
		advHS[id] = true
	}
	queued := map[string]bool{}
	for _, id := range w.delState.GetQueued() {
		queued[id] = true
	}
	res := make([]objObs, c.n)
	for k, o := range w.objs {
		var ob objObs
		e, err := w.local.st.HeadStorage().GetEntry(ctx, o.id)
		if err == nil {
			ob.entry = true
			ob.status = int(e.DeletedStatus)
			ob.parent = e.ParentId != ""
		} else if !errors.Is(err, anystore.ErrDocNotFound) {
			c.r.Fatal("GetEntry: " + err.Error())
		}
		ob.adv = adv[o.id]
		ob.advHS = advHS[o.id]
		_, err = w.local.st.TreeStorage(ctx, o.id)
		ob.stored = err == nil
		ob.mirror = '-'
		if w.delState.Exists(o.id) {
			if queued[o.id] {
				ob.mirror = 'q'
			} else {
				ob.mirror = 'd'
			}
		}
		_, ob.live = w.live[o.id]
		res[k] = ob
	}
	return res
}

func b01(b bool) byte {
	if b {
		return '1'
	}
	return '0'
}

func showObs(obs []objObs) string {
	parts := make([]string, len(obs))
	for i, o := range obs {
		st := byte('-')
		if o.entry {
			st = byte('0' + o.status)
		}
		parts[i] = string([]byte{st, b01(o.adv), b01(o.stored), o.mirror, b01(o.live)})
	}
	return strings.Join(parts, " ")
}

func (c *caseRun) deletedNow() []int {
	if c.w.lastState == nil {
		return nil
	}
	return c.idxs(sortedKeys(c.w.lastState.DeletedIds))
}

// step finishes one step: correspondence with the model and the direct oracle.
func (c *caseRun) step(line, kind, result string) {
	obs := c.observe()
	del := c.deletedNow()
	impl := result + " | " + showObs(obs) + " | D=" + showInts(del)
	model := c.ask(line)
	c.r.Check(prop, "deletion.step", append([]string{}, c.ops...), model, impl)
	c.r.Count("op." + kind)
	c.r.Count("res." + kind + "." + strings.SplitN(result, " ", 2)[0])
	c.oracleResult(line, kind, result, obs)
	c.oracle(kind, obs, del)
	c.prev = obs
}

// oracleResult: creating, putting or fetching a tombstoned id fails as already deleted.
func (c *caseRun) oracleResult(line, kind, result string, obs []objObs) {
	k := -1
	switch kind {
	case "put", "fetch", "fstart", "head":
		fmt.Sscanf(strings.SplitN(line, " ", 2)[1], "%d", &k)
	case "ffin":
		k = c.finishing
	}
	if k < 0 {
		return
	}
	p := c.prev[k]
	tomb := p.entry && p.status > 0
	if !tomb {
		return
	}
	must := false
	switch kind {
	case "put":
		must = true
	case "fetch", "fstart":
		// opening a queued tree that is still stored locally is not a fetch; anything else is
		must = !p.stored || p.status == int(headstorage.DeletedStatusDeleted)
	case "head":
		must = !p.stored && !p.live
	case "ffin":
		if result == "ok" {
			c.violate(c.taintSig(k), "create_put_fetch_fail", fmt.Sprintf("the parked fetch of object %d completed although the id is tombstoned (status %d)", k, p.status))
		}
		return
	}
	if must && result != "deleted" {
		c.violate(c.taintSig(k), "create_put_fetch_fail", fmt.Sprintf("%s of tombstoned object %d (status %d, stored=%v) returned %q instead of the already-deleted error", kind, k, p.status, p.stored, result))
	}
}

func (c *caseRun) taintSig(k int) string {
	if c.raceTaint[k] {
		return sigFetchRace
	}
	return ""
}

// oracle: C15 stated directly on the real observations.
func (c *caseRun) oracle(kind string, obs []objObs, del []int) {
	for k, o := range obs {
		p := c.prev[k]
		// status is monotone, entries never disappear
		if p.entry && (!o.entry || o.status < p.status) {
			c.violate("", "status_monotone", fmt.Sprintf("object %d: status went from %d to %d (entry=%v) on %s", k, p.status, o.status, o.entry, kind))
		}
		if o.entry && o.status > 0 {
			c.tombstoned[k] = true
		}
		if c.tombstoned[k] && (!o.entry || o.status == 0) {
			c.violate("", "status_monotone", fmt.Sprintf("object %d was tombstoned and is not any more after %s", k, kind))
		}
		// a tombstoned id is not advertised
		if c.tombstoned[k] && o.adv {
			c.violate(c.taintSig(k), "tombstoned_not_advertised", fmt.Sprintf("object %d is tombstoned (status %d) but in the advertised head index after %s", k, o.status, kind))
		}
		// … nor by the real headsync component (real subscription order, real update queue)
		if c.tombstoned[k] && o.advHS {
			c.violate(c.taintSig(k), "tombstoned_not_advertised", fmt.Sprintf("object %d is tombstoned (status %d) but the real head sync still advertises it after %s", k, o.status, kind))
		}
		if o.adv != o.advHS {
			c.violate("", "tombstoned_not_advertised", fmt.Sprintf("object %d: the real head sync's index (%v) differs from the directly wired DiffManager's (%v) after %s", k, o.advHS, o.adv, kind))
		}
		// no resurrection: a Deleted id has no stored tree and no live object
		if o.entry && o.status == int(headstorage.DeletedStatusDeleted) && (o.stored || o.live) {
			c.violate(c.taintSig(k), "no_resurrection", fmt.Sprintf("object %d has status Deleted but stored=%v live=%v after %s", k, o.stored, o.live, kind))
		}
		// children follow their parent
		if par := c.parents[k]; par >= 0 && o.entry && o.parent {
			po := obs[par]
			justCreated := o.stored && !p.stored
			if justCreated && po.entry && po.status > 0 && o.status == 0 {
				c.violate("", "children_follow", fmt.Sprintf("child %d created while parent %d has status %d but the child is not queued", k, par, po.status))
			}
			if kind == "run" && po.entry && po.status > 0 && o.status == 0 {
				c.violate("", "children_follow", fmt.Sprintf("after a deletion worker run child %d of tombstoned parent %d (status %d) is not queued", k, par, po.status))
			}
			// in every state, after every step — faulted worker passes, crashes and restarts included: a bound
			// child of a Deleted parent is tombstoned, and a bound child that is still NotDeleted has a parent
			// whose tree is stored (what keeps a storage-faulted pass from orphaning it)
			if po.entry && po.status == int(headstorage.DeletedStatusDeleted) && o.status == 0 {
				c.violate("", "children_follow", fmt.Sprintf("after %s child %d of deleted parent %d is not queued", kind, k, par))
			}
			if o.status == 0 && !po.stored {
				c.violate("", "children_follow", fmt.Sprintf("after %s child %d is NotDeleted but its parent %d has no stored tree (entry=%v status=%d)", kind, k, par, po.entry, po.status))
			}
		}
		if kind == "run" && o.entry && o.status > 0 && o.mirror != '-' && o.stored {
			c.violate(c.taintSig(k), "no_resurrection", fmt.Sprintf("object %d is tombstoned and known to the deletion state but still stored after a worker run", k))
		}
	}
	// deleted ids: grow only; equal to the union over the attached records; same from scratch
	now := map[int]bool{}
	for _, k := range del {
		now[k] = true
	}
	for k := range c.prevDeleted {
		if !now[k] {
			c.violate("", "deletedIds_monotone", fmt.Sprintf("id %d left the deleted-ids set on %s", k, kind))
		}
	}
	c.prevDeleted = now
	want := map[int]bool{}
	for rid := range c.attached {
		for _, k := range c.recs[rid].ids {
			want[k] = true
		}
	}
	if showSet(want) != showSet(now) {
		c.violate("", "deletedIds_det", fmt.Sprintf("deleted ids %s, union over the attached records %s after %s", showSet(now), showSet(want), kind))
	}
	// every id in the deleted set is tombstoned in the heads table
	for k := range now {
		if !obs[k].entry || obs[k].status == 0 {
			c.violate("", "status_monotone", fmt.Sprintf("id %d is in the deleted-ids set but its status is not a tombstone after %s", k, kind))
		}
	}
}

func showSet(m map[int]bool) string {
	var l []int
	for k := range m {
		l = append(l, k)
	}
	sort.Ints(l)
	return showInts(l)
}

// fromScratch builds the settings state from the full stored history with the real builder.
func (c *caseRun) fromScratch() ([]int, error) {
	st, err := c.w.local.st.TreeStorage(ctx, c.w.local.st.StateStorage().SettingsId())
	if err != nil {
		return nil, err
	}
	ht, err := objecttree.BuildHistoryTree(objecttree.HistoryTreeParams{Storage: st, AclList: c.w.local.acl})
	if err != nil {
		return nil, err
	}
	s, err := settingsstate.NewStateBuilder().Build(ht, nil)
	if err != nil {
		return nil, err
	}
	return c.idxs(sortedKeys(s.DeletedIds)), nil
}

func (c *caseRun) checkScratch(kind string) {
	fs, err := c.fromScratch()
	if err != nil {
		c.r.Fatal("from-scratch build: " + err.Error())
	}
	if showInts(fs) != showInts(c.deletedNow()) {
		c.violate("", "deletedIds_det", fmt.Sprintf("deleted ids incrementally %s, from scratch %s after %s", showInts(c.deletedNow()), showInts(fs), kind))
	}
}

// ---- settings records --------------------------------------------------------------------------

func (c *caseRun) declare(tr objecttree.ObjectTree, realId string) *record {
	if rid, ok := c.ridOf[realId]; ok {
		return c.recs[rid]
	}
	ch, err := tr.GetChange(realId)
	if err != nil {
		c.r.Fatal("GetChange: " + err.Error())
	}
	sc, err := tr.Storage().Get(ctx, realId)
	if err != nil {
		c.r.Fatal("storage get: " + err.Error())
	}
	data, err := tr.UnpackChange(sc.RawTreeChangeWithId())
	if err != nil {
		c.r.Fatal("unpack: " + err.Error())
	}
	ids, snap, isSnap := decodeSettings(data)
	rec := &record{rid: len(c.recs), realId: realId, ids: c.idxs(ids), snap: c.idxs(snap), isSnap: isSnap}
	for _, p := range ch.PreviousIds {
		rec.prev = append(rec.prev, c.ridOf[p])
	}
	c.recs = append(c.recs, rec)
	c.ridOf[realId] = rec.rid
	return rec
}

func recLine(rec *record) string {
	snap := "n"
	if rec.isSnap {
		snap = "s" + showInts(rec.snap)
	}
	return fmt.Sprintf("rec %d %s %s", rec.rid, showInts(rec.ids), snap)
}

// buildsWire renders the state-builder runs observed during a step; mode R = the state object was
// replaced (Rebuild), A = kept (Update).
func (c *caseRun) buildsWire(before *settingsstate.State) string {
	if len(c.w.builds) == 0 {
		return "-"
	}
	if len(c.w.builds) > 1 {
		c.r.Fatal("more than one state build in a step")
	}
	b := c.w.builds[0]
	mode := "A"
	if c.w.lastState != before {
		mode = "R"
	}
	seq := make([]int, len(b.seq))
	for i, id := range b.seq {
		rid, ok := c.ridOf[id]
		if !ok {
			c.r.Fatal("state builder iterated an undeclared change")
		}
		seq[i] = rid
		c.attached[rid] = true
	}
	return fmt.Sprintf("%s:%d:%d:%s", mode, c.ridOf[b.start], c.ridOf[b.root], showInts(seq))
}

// honestSnapshot: the snapshot of a freshly created record must be the union of the delete ids of
// the record and of all its ancestors (direct statement of "grow-only union incl. snapshots").
func (c *caseRun) checkSnapshot(rec *record) {
	if !rec.isSnap {
		return
	}
	want := map[int]bool{}
	seen := map[int]bool{}
	var walk func(rid int)
	walk = func(rid int) {
		if seen[rid] {
			return
		}
		seen[rid] = true
		for _, k := range c.recs[rid].ids {
			want[k] = true
		}
		for _, p := range c.recs[rid].prev {
			walk(p)
		}
	}
	walk(rec.rid)
	got := map[int]bool{}
	for _, k := range rec.snap {
		got[k] = true
	}
	if showSet(want) != showSet(got) {
		c.violate("", "deletedIds_det", fmt.Sprintf("snapshot of record %d holds %s, the deletes of its causal past are %s", rec.rid, showSet(got), showSet(want)))
	}
}

// ---- steps ----------------------------------------------------------------------------------------

func (c *caseRun) setLive(id string, t synctree.SyncTree) {
	if old, ok := c.w.live[id]; ok && old != t {
		old.Close()
	}
	c.w.live[id] = t
}

// withRace runs f (a put / fetch / fetch-finish of object k) with a deletion of k landing at the schedule
// point right before the storage-creating write transaction is opened (hook objecttree.VerifBeforeCreateTx),
// i.e. after every tombstone check that is made outside that transaction: a remote author records the
// deletion, the local settings object receives it, and (mostly) the deletion worker runs. The injected
// steps are ordinary steps (correspondence + oracle); the racing operation linearises at its transaction,
// so the model sees it after them.
func (c *caseRun) withRace(k int, f func()) {
	id := c.w.objs[k].id
	fired := false
	snap, worker := c.r.Chance(30), c.r.Chance(75)
	objecttree.VerifBeforeCreateTx = func(treeId string) {
		if treeId != id || fired {
			return
		}
		fired = true
		c.doRec(0, []int{k}, snap)
		for i := 0; i < 16 && c.missing(0) > 0; i++ {
			c.doDeliver(0, true)
		}
		if worker {
			c.doRun()
		}
	}
	defer func() { objecttree.VerifBeforeCreateTx = nil }()
	f()
	if fired {
		c.r.Count("race.fired")
	} else {
		c.r.Count("race.not_reached")
	}
}

// missing counts the settings changes of remote p the local settings tree lacks.
func (c *caseRun) missing(p int) int {
	n := 0
	for _, ch := range c.rawOf(c.w.remoteSettings[p]) {
		if !c.w.settings.HasChanges(ch.Id) {
			n++
		}
	}
	return n
}

func (c *caseRun) doPut(k int) {
	o := c.w.objs[k]
	t, err := synctree.PutSyncTree(ctx, o.payload, c.w.buildDeps())
	if err == nil {
		c.setLive(o.id, t)
	}
	c.step(fmt.Sprintf("put %d", k), "put", errEnum(err))
}

func (c *caseRun) doFetch(k int) {
	o := c.w.objs[k]
	t, err := synctree.BuildSyncTreeOrGetRemote(peerCtx(), o.id, c.w.buildDeps())
	if err == nil {
		c.setLive(o.id, t)
	}
	c.step(fmt.Sprintf("fetch %d", k), "fetch", errEnum(err))
}

func (c *caseRun) doFetchStart(k int) {
	w := c.w
	o := w.objs[k]
	w.sc.park = true
	done := make(chan fetchRes, 1)
	go func() {
		t, err := synctree.BuildSyncTreeOrGetRemote(peerCtx(), o.id, w.buildDeps())
		done <- fetchRes{t, err}
	}()
	res := ""
	select {
	case <-w.sc.parked:
		w.fetchIdx, w.fetchDone = k, done
		res = "parked"
		c.fetchStatus = 0
		if c.prev[k].entry {
			c.fetchStatus = c.prev[k].status
		}
		c.workerRan = false
	case fr := <-done:
		w.sc.park = false
		if fr.err == nil {
			c.setLive(o.id, fr.t)
		}
		res = errEnum(fr.err)
	case <-time.After(60 * time.Second):
		c.r.Fatal("fetch start hung")
	}
	c.step(fmt.Sprintf("fstart %d", k), "fstart", res)
}

func (c *caseRun) doFetchFinish() {
	w := c.w
	k := w.fetchIdx
	o := w.objs[k]
	// the exact schedule of F-delete-fetch-race: check passed (no tombstone at start), tombstone
	// recorded and the worker ran while parked
	raceSchedule := c.fetchStatus == 0 && c.prev[k].entry && c.prev[k].status == int(headstorage.DeletedStatusDeleted) && c.workerRan && !c.prev[k].stored
	w.sc.release <- struct{}{}
	var fr fetchRes
	select {
	case fr = <-w.fetchDone:
	case <-time.After(60 * time.Second):
		c.r.Fatal("fetch finish hung")
	}
	w.fetchIdx = -1
	if fr.err == nil {
		c.setLive(o.id, fr.t)
		if raceSchedule {
			c.raceTaint[k] = true
		}
	}
	c.finishing = k
	c.step("ffin", "ffin", errEnum(fr.err))
	c.finishing = -1
}

func (c *caseRun) abortFetch() {
	w := c.w
	if w.fetchIdx < 0 {
		return
	}
	w.sc.abort = true
	w.sc.release <- struct{}{}
	select {
	case fr := <-w.fetchDone:
		if fr.err == nil {
			fr.t.Close()
		}
	case <-time.After(60 * time.Second):
		c.r.Fatal("fetch abort hung")
	}
	w.sc.abort = false
	w.fetchIdx = -1
}

func (c *caseRun) doEdit(k int) {
	o := c.w.objs[k]
	t, err := c.w.getTree(ctx, o.id)
	if err == nil {
		t.Lock()
		_, err = t.AddContent(ctx, objecttree.SignableChangeContent{Data: []byte("local"), Key: c.w.keys.SignKey})
		t.Unlock()
	}
	c.step(fmt.Sprintf("edit %d", k), "edit", errEnum(err))
}

// doHead: an incoming head update. Remote 0 adds a change to the tree; the local peer gets the
// tree the way object sync does (cache, local storage or remote fetch) and applies the change.
func (c *caseRun) doHead(k int) {
	w := c.w
	o := w.objs[k]
	rst, err := w.remotes[0].st.TreeStorage(ctx, o.id)
	if err != nil {
		c.r.Fatal("remote tree storage: " + err.Error())
	}
	rt, err := objecttree.BuildObjectTree(rst, w.remotes[0].acl)
	if err != nil {
		c.r.Fatal("remote tree: " + err.Error())
	}
	rt.Lock()
	ar, err := rt.AddContent(ctx, objecttree.SignableChangeContent{Data: []byte("remote-update"), Key: w.keys.SignKey})
	rt.Unlock()
	if err != nil {
		c.r.Fatal("remote add: " + err.Error())
	}
	t, err := w.getTree(peerCtx(), o.id)
	if err == nil {
		t.Lock()
		_, err = t.AddRawChangesFromPeer(ctx, remotePeerId, objecttree.RawChangesPayload{NewHeads: ar.Heads, RawChanges: c.rawOf(rt)})
		t.Unlock()
	}
	c.step(fmt.Sprintf("head %d", k), "head", errEnum(err))
}

func (c *caseRun) doRun() {
	deletionmanager.VerifRunDeleter(ctx, c.w.delMgr)
	if c.w.fetchIdx >= 0 {
		c.workerRan = true
	}
	c.step("run", "run", "ok")
}

// doLegacy: a heads entry as old versions wrote it (non-derived, heads = [id], no common snapshot) appears
// in the stored heads table for an id that has no entry yet. Only for ids that are neither a bound child nor
// the parent of one (bound children did not exist in those versions).
func (c *caseRun) legacyOK(k int) bool {
	if c.prev[k].entry || c.parents[k] >= 0 {
		return false
	}
	for _, p := range c.parents {
		if p == k {
			return false
		}
	}
	return true
}

func (c *caseRun) doLegacy(k int) {
	if !c.legacyOK(k) {
		return
	}
	id := c.w.objs[k].id
	err := c.w.local.st.HeadStorage().UpdateEntry(ctx, headstorage.HeadsUpdate{Id: id, Heads: []string{id}})
	c.step(fmt.Sprintf("legacy %d", k), "legacy", errEnum(err))
}

// doRunFault: a deletion-worker pass during which every write transaction of the storage fails.
func (c *caseRun) doRunFault() {
	c.w.local.db.failWrites = true
	deletionmanager.VerifRunDeleter(ctx, c.w.delMgr)
	c.w.local.db.failWrites = false
	if c.w.fetchIdx >= 0 {
		c.workerRan = true
	}
	c.r.CountN("fault.write_tx_failed", c.w.local.db.failed)
	c.w.local.db.failed = 0
	c.step("runf", "runfault", "ok")
}

// doCrash: the process dies inside a deletion-worker pass, right after the first queued id was marked
// Deleted and before its bound children were handled (the worker's context is cancelled at that point,
// which makes deleteBoundChildren and the outer loop return), then the peer restarts.
func (c *caseRun) doCrash() {
	if len(c.w.delState.GetQueued()) == 0 {
		return
	}
	c.abortFetch()
	cctx, cancel := context.WithCancel(ctx)
	defer cancel()
	touched := ""
	c.w.tm.onDone = func(id string) { touched = id; cancel() }
	deletionmanager.VerifRunDeleter(cctx, c.w.delMgr)
	c.w.tm.onDone = nil
	k, ok := c.w.byId[touched]
	if !ok {
		c.r.Fatal("crash: the worker touched no catalogue object")
	}
	c.w.obs.drain()
	if err := c.w.restart(); err != nil {
		c.r.Fatal("restart: " + err.Error())
	}
	if c.w.updates != 1 {
		c.violate("", "deletedIds_det", "after restart the state built from the stored snapshot differs from the full history (checkHistoryState had to repair it)")
	}
	c.w.updates = 0
	line := fmt.Sprintf("crash %d %s", k, c.buildsWire(nil))
	c.w.builds = nil
	c.markAttached()
	c.step(line, "restart", "ok")
	c.r.Count("op.crash")
	c.checkScratch("crash")
}

func (c *caseRun) doRestart() {
	c.abortFetch()
	if err := c.w.restart(); err != nil {
		c.r.Fatal("restart: " + err.Error())
	}
	if c.w.updates != 1 {
		c.violate("", "deletedIds_det", "after restart the state built from the stored snapshot differs from the full history (checkHistoryState had to repair it)")
	}
	c.w.updates = 0
	// restart always rebuilds: attached = what the builder iterated plus everything before the root
	line := "restart " + c.buildsWire(nil)
	c.w.builds = nil
	c.markAttached()
	c.step(line, "restart", "ok")
	c.checkScratch("restart")
}

// doRestartRace: restart with a deletion of k landing DURING space start: deletion state, deletion manager and
// settings object are already running, the real head sync is inside Run — its FillDiff has filled the index
// and is about to store the space hash — when a remote deletion record for k is applied by the settings
// object. On the code as it is (subscribe, then FillDiff) this equals `restart; deliver`, which is what the
// model is asked.
func (c *caseRun) doRestartRace(k int) {
	c.abortFetch()
	c.doRec(0, []int{k}, false)
	w := c.w
	var restartBuilds []*buildRec
	var before *settingsstate.State
	fired := false
	w.onFillDiff = func() {
		fired = true
		restartBuilds, w.builds = w.builds, nil
		before = w.lastState
		var batch []*treechangeproto.RawTreeChangeWithId
		for _, ch := range c.rawOf(w.remoteSettings[0]) {
			if !w.settings.HasChanges(ch.Id) {
				batch = append(batch, ch)
			}
		}
		w.settings.Lock()
		_, err := w.settings.AddRawChangesFromPeer(ctx, remotePeerId, objecttree.RawChangesPayload{NewHeads: w.remoteSettings[0].Heads(), RawChanges: batch})
		w.settings.Unlock()
		if err != nil {
			c.r.Fatal("deliver during start: " + err.Error())
		}
	}
	if err := w.restart(); err != nil {
		c.r.Fatal("restart: " + err.Error())
	}
	w.onFillDiff = nil
	if !fired {
		c.r.Fatal("the real head sync did not reach the end of FillDiff during Run")
	}
	injected := w.builds
	if w.updates != 1+len(injected) {
		c.violate("", "deletedIds_det", "after restart the state built from the stored snapshot differs from the full history (checkHistoryState had to repair it)")
	}
	w.updates = 0
	w.builds = restartBuilds
	c.ask("restart " + c.buildsWire(nil)) // intermediate state not observable: compared after the delivery
	w.builds = injected
	line := "deliver " + c.buildsWire(before)
	w.builds = nil
	c.markAttached()
	c.r.Count("op.restart_race")
	c.step(line, "deliver", "ok")
	c.checkScratch("restart with a deletion during start")
}

// markAttached refreshes the set of records attached to the local settings tree from storage.
func (c *caseRun) markAttached() {
	st, err := c.w.local.st.TreeStorage(ctx, c.w.local.st.StateStorage().SettingsId())
	if err != nil {
		c.r.Fatal("settings storage: " + err.Error())
	}
	c.attached = map[int]bool{}
	err = st.GetAfterOrder(ctx, "", func(_ context.Context, ch objecttree.StorageChange) (bool, error) {
		if rid, ok := c.ridOf[ch.Id]; ok {
			c.attached[rid] = true
		}
		return true, nil
	})
	if err != nil {
		c.r.Fatal("settings storage iterate: " + err.Error())
	}
}

// doRec: remote author p records the deletion of ids (plain or snapshot) with the real change
// factory and state builder on its own settings tree.
func (c *caseRun) doRec(p int, ks []int, snap bool) {
	w := c.w
	tr := w.remoteSettings[p]
	st, err := settingsstate.NewStateBuilder().Build(tr, w.remoteState[p])
	if err != nil {
		c.r.Fatal("remote build: " + err.Error())
	}
	w.remoteState[p] = st
	ids := make([]string, len(ks))
	for i, k := range ks {
		ids[i] = w.objs[k].id
	}
	data, err := settingsstate.NewChangeFactory().CreateObjectDeleteChange(ids, st, snap)
	if err != nil {
		c.r.Fatal("change factory: " + err.Error())
	}
	tr.Lock()
	// explicit distinct timestamps: two authors recording the same ids on the same heads within one
	// second would otherwise produce the very same change (same CID)
	w.recSeq++
	ar, err := tr.AddContent(ctx, objecttree.SignableChangeContent{Data: data, Key: w.keys.SignKey, IsSnapshot: snap, Timestamp: 1_000_000 + w.recSeq})
	tr.Unlock()
	if err != nil {
		c.r.Fatal("remote settings add: " + err.Error())
	}
	if ar.Mode == objecttree.Rebuild {
		w.remoteState[p] = nil
	}
	rec := c.declare(tr, ar.Heads[0])
	c.checkSnapshot(rec)
	c.ask(recLine(rec))
	c.r.Count("op.rec")
	if snap {
		c.r.Count("op.rec.snapshot")
	}
}

// missing lists the raw changes of `from` (storage order = a causal order) that `has` lacks.
func (c *caseRun) rawOf(tr objecttree.ObjectTree) []*treechangeproto.RawTreeChangeWithId {
	var res []*treechangeproto.RawTreeChangeWithId
	err := tr.Storage().GetAfterOrder(ctx, "", func(_ context.Context, ch objecttree.StorageChange) (bool, error) {
		if ch.Id != tr.Id() {
			res = append(res, &treechangeproto.RawTreeChangeWithId{Id: ch.Id, RawChange: append([]byte{}, ch.RawChange...)})
		}
		return true, nil
	})
	if err != nil {
		c.r.Fatal("storage iterate: " + err.Error())
	}
	return res
}

// doXfer: remote q pulls everything remote p has.
func (c *caseRun) doXfer(p, q int) {
	w := c.w
	src, dst := w.remoteSettings[p], w.remoteSettings[q]
	var batch []*treechangeproto.RawTreeChangeWithId
	for _, ch := range c.rawOf(src) {
		if !dst.HasChanges(ch.Id) {
			batch = append(batch, ch)
		}
	}
	if len(batch) == 0 {
		return
	}
	dst.Lock()
	ar, err := dst.AddRawChanges(ctx, objecttree.RawChangesPayload{NewHeads: src.Heads(), RawChanges: batch})
	dst.Unlock()
	if err != nil {
		c.r.Fatal("xfer: " + err.Error())
	}
	if ar.Mode == objecttree.Rebuild {
		w.remoteState[q] = nil
	}
	c.r.Count("op.xfer")
}

// doDeliver: the local peer receives a batch of settings changes of remote p (any subset, any
// order inside the batch).
func (c *caseRun) doDeliver(p int, closed bool) {
	w := c.w
	var miss []*treechangeproto.RawTreeChangeWithId
	for _, ch := range c.rawOf(w.remoteSettings[p]) {
		if !w.settings.HasChanges(ch.Id) {
			miss = append(miss, ch)
		}
	}
	if len(miss) == 0 {
		return
	}
	var batch []*treechangeproto.RawTreeChangeWithId
	if closed {
		batch = miss[:1+c.r.Intn(len(miss))]
	} else {
		for _, ch := range miss {
			if c.r.Chance(60) {
				batch = append(batch, ch)
			}
		}
		if len(batch) == 0 {
			batch = miss[len(miss)-1:]
		}
	}
	c.r.Rand.Shuffle(len(batch), func(i, j int) { batch[i], batch[j] = batch[j], batch[i] })
	before := w.lastState
	w.builds = nil
	w.settings.Lock()
	_, err := w.settings.AddRawChangesFromPeer(ctx, remotePeerId, objecttree.RawChangesPayload{NewHeads: w.remoteSettings[p].Heads(), RawChanges: batch})
	w.settings.Unlock()
	if err != nil {
		c.r.Fatal("deliver: " + err.Error())
	}
	line := fmt.Sprintf("deliver %s", c.buildsWire(before))
	w.builds = nil
	c.markAttached()
	if closed {
		c.r.Count("deliver.closed")
	} else {
		c.r.Count("deliver.subset")
	}
	c.step(line, "deliver", "ok")
	c.checkScratch("deliver")
}

// doDel: local deletion through the real settings object.
func (c *caseRun) doDel(k int, snap bool) {
	w := c.w
	settings.DoSnapshot = func(int) bool { return snap }
	before := w.lastState
	w.builds = nil
	err := w.settings.DeleteObject(ctx, w.objs[k].id)
	res := errEnum(err)
	line := fmt.Sprintf("del %d %s", k, map[bool]string{true: "s", false: "n"}[snap])
	if err == nil {
		rec := c.declare(w.settings, w.settings.Heads()[0])
		c.checkSnapshot(rec)
		snapS := "n"
		if rec.isSnap {
			snapS = "s" + showInts(rec.snap)
		}
		res = fmt.Sprintf("ok %s %s", showInts(rec.ids), snapS)
		line += fmt.Sprintf(" %d %s", rec.rid, c.buildsWire(before))
		c.markAttached()
	}
	w.builds = nil
	c.step(line, "del", res)
	if err == nil {
		c.checkScratch("del")
		// the deleted object and every child bound to it are queued with it
		for j, o := range c.prev {
			if (j == k || (c.parents[j] == k && o.entry && o.parent)) && (!o.entry || o.status == 0) {
				c.violate("", "children_follow", fmt.Sprintf("after the local deletion of %d object %d is not tombstoned", k, j))
			}
		}
	}
}
