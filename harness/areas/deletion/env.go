// Package deletion drives the real deletion machinery of any-sync (C15) against the Lean model
// AnySync.Deletion: real spacestorage + headstorage over any-store in temp dirs, real
// deletionstate, real DeletionManager/deleter, real DiffManager over a real ldiff, real settings
// object (state builder, change factory) over a real sync tree, real PutSyncTree /
// BuildSyncTreeOrGetRemote.  Fakes: the tree manager (a map of live sync trees, as the client
// does), the SyncClient (a remote peer = a second real space storage; its tree request can be
// parked by the harness) and the head-update queue (synchronous instead of a goroutine).
package deletion

import (
	"context"
	"errors"
	"fmt"
	"os"
	"path/filepath"
	"sort"
	"sync/atomic"
	"time"

	anystore "github.com/anyproto/any-store"

	"github.com/anyproto/any-sync/app"
	"github.com/anyproto/any-sync/app/ldiff"
	"github.com/anyproto/any-sync/app/logger"
	"github.com/anyproto/any-sync/commonspace/deletionmanager"
	"github.com/anyproto/any-sync/commonspace/deletionstate"
	"github.com/anyproto/any-sync/commonspace/headsync"
	"github.com/anyproto/any-sync/commonspace/headsync/headstorage"
	"github.com/anyproto/any-sync/commonspace/object/accountdata"
	"github.com/anyproto/any-sync/commonspace/object/acl/list"
	"github.com/anyproto/any-sync/commonspace/object/acl/recordverifier"
	"github.com/anyproto/any-sync/commonspace/object/acl/syncacl"
	"github.com/anyproto/any-sync/commonspace/object/tree/objecttree"
	"github.com/anyproto/any-sync/commonspace/object/tree/synctree"
	"github.com/anyproto/any-sync/commonspace/object/tree/synctree/response"
	"github.com/anyproto/any-sync/commonspace/object/tree/synctree/updatelistener"
	"github.com/anyproto/any-sync/commonspace/object/tree/treechangeproto"
	"github.com/anyproto/any-sync/commonspace/object/tree/treestorage"
	"github.com/anyproto/any-sync/commonspace/object/treemanager"
	"github.com/anyproto/any-sync/commonspace/settings"
	"github.com/anyproto/any-sync/commonspace/settings/settingsstate"
	"github.com/anyproto/any-sync/commonspace/spacepayloads"
	"github.com/anyproto/any-sync/commonspace/spacestate"
	"github.com/anyproto/any-sync/commonspace/spacestorage"
	"github.com/anyproto/any-sync/commonspace/spacesyncproto"
	"github.com/anyproto/any-sync/commonspace/sync/objectsync/objectmessages"
	"github.com/anyproto/any-sync/commonspace/sync/syncdeps"
	"github.com/anyproto/any-sync/commonspace/syncstatus"
	"github.com/anyproto/any-sync/net/peer"
	"github.com/anyproto/any-sync/util/crypto"
)

var ctx = context.Background()

const remotePeerId = "remotePeer"

// ---- a peer: one real space storage in its own any-store ------------------------------------

// faultDB is the real any-store DB with one switch: while failWrites is set every explicit write
// transaction any-sync opens (storage.Delete, AddAll, CreateStorage, …) fails at WriteTx, the way a
// cancelled context, a full disk or a busy writer makes it fail. Everything else goes to the real DB.
type faultDB struct {
	anystore.DB
	failWrites bool
	failed     int
}

var errInjected = errors.New("verif: injected storage fault")

func (d *faultDB) WriteTx(ctx context.Context) (anystore.WriteTx, error) {
	if d.failWrites {
		d.failed++
		return nil, errInjected
	}
	return d.DB.WriteTx(ctx)
}

type peerEnv struct {
	dir  string
	db   *faultDB
	st   spacestorage.SpaceStorage
	acl  list.AclList
	keys *accountdata.AccountKeys
}

func openPeer(dir string, keys *accountdata.AccountKeys, payload *spacestorage.SpaceStorageCreatePayload, spaceId string) (*peerEnv, error) {
	rdb, err := anystore.Open(ctx, filepath.Join(dir, "store.db"), nil)
	if err != nil {
		return nil, err
	}
	db := &faultDB{DB: rdb}
	var st spacestorage.SpaceStorage
	if payload != nil {
		st, err = spacestorage.Create(ctx, db, *payload)
	} else {
		st, err = spacestorage.New(ctx, spaceId, db)
	}
	if err != nil {
		db.Close()
		return nil, err
	}
	aclSt, err := st.AclStorage()
	if err != nil {
		db.Close()
		return nil, err
	}
	acl, err := list.BuildAclListWithIdentity(keys, aclSt, recordverifier.NewValidateFull())
	if err != nil {
		db.Close()
		return nil, err
	}
	return &peerEnv{dir: dir, db: db, st: st, acl: acl, keys: keys}, nil
}

func (p *peerEnv) close() {
	if p.db != nil {
		p.db.Close()
		p.db = nil
	}
}

// ---- thin fakes ------------------------------------------------------------------------------

type fakeSyncAcl struct {
	syncacl.SyncAcl
	acl list.AclList
}

func (f *fakeSyncAcl) Id() string            { return f.acl.Id() }
func (f *fakeSyncAcl) Head() *list.AclRecord { return f.acl.Head() }

type fakeAccount struct{ keys *accountdata.AccountKeys }

func (f *fakeAccount) Init(a *app.App) error             { return nil }
func (f *fakeAccount) Name() string                      { return "common.accountservice" }
func (f *fakeAccount) Account() *accountdata.AccountKeys { return f.keys }

// fakeSyncClient answers tree requests from the remote peer's real storage. When park is set
// the request signals `parked` and waits for `release` before it answers (the seam used to
// interleave a deletion with a remote fetch).
type fakeSyncClient struct {
	synctree.RequestFactory
	w       *world
	park    bool
	abort   bool
	parked  chan struct{}
	release chan struct{}
}

func (c *fakeSyncClient) Broadcast(ctx context.Context, headUpdate *objectmessages.HeadUpdate) error {
	return nil
}
func (c *fakeSyncClient) QueueRequest(ctx context.Context, req syncdeps.Request) error { return nil }

var errAborted = errors.New("verif: request aborted by restart")
var errRemoteMissing = errors.New("verif: remote peer does not have the tree")

func (c *fakeSyncClient) SendTreeRequest(ctx context.Context, req syncdeps.Request, collector syncdeps.ResponseCollector) error {
	id := req.ObjectId()
	if c.park {
		c.park = false
		c.parked <- struct{}{}
		<-c.release
		if c.abort {
			return errAborted
		}
	}
	resp, err := c.w.remoteResponse(id)
	if err != nil {
		return err
	}
	return collector.CollectResponse(ctx, remotePeerId, id, resp)
}

// fakeTreeManager is what a client's tree cache does: a map of live sync trees; DeleteTree gets
// the tree and calls its Delete.
type fakeTreeManager struct {
	w      *world
	marked map[string]int
	// onDone, when set, is called once after the first MarkTreeDeleted / DeleteTree completed (used to
	// cancel the worker's context: a crash right after the first id of a worker pass)
	onDone func(id string)
}

func (t *fakeTreeManager) done(id string) {
	if t.onDone != nil {
		f := t.onDone
		t.onDone = nil
		f(id)
	}
}

func (t *fakeTreeManager) Init(a *app.App) error         { return nil }
func (t *fakeTreeManager) Name() string                  { return treemanager.CName }
func (t *fakeTreeManager) Run(ctx context.Context) error { return nil }
func (t *fakeTreeManager) Close(ctx context.Context) error {
	return nil
}
func (t *fakeTreeManager) GetTree(ctx context.Context, spaceId, treeId string) (objecttree.ObjectTree, error) {
	return t.w.getTree(ctx, treeId)
}
func (t *fakeTreeManager) ValidateAndPutTree(ctx context.Context, spaceId string, payload treestorage.TreeStorageCreatePayload) error {
	return errors.New("not used")
}
func (t *fakeTreeManager) MarkTreeDeleted(ctx context.Context, spaceId, treeId string) error {
	t.marked[treeId]++
	t.done(treeId)
	return nil
}
func (t *fakeTreeManager) DeleteTree(ctx context.Context, spaceId, treeId string) error {
	defer t.done(treeId) // whatever the outcome: the first id of the pass has been handled
	tr, err := t.w.getTree(ctx, treeId)
	if err != nil {
		return err
	}
	if err = tr.Delete(); err != nil {
		return err
	}
	delete(t.w.live, treeId)
	return nil
}

// recTree records which changes the settings state builder iterates (the view the model is fed).
type recTree struct {
	objecttree.ObjectTree
	w *world
}

func (r *recTree) IterateFrom(id string, convert objecttree.ChangeConvertFunc, iterate objecttree.ChangeIterateFunc) error {
	b := &buildRec{start: id, root: r.ObjectTree.Root().Id}
	err := r.ObjectTree.IterateFrom(id, convert, func(c *objecttree.Change) bool {
		b.seq = append(b.seq, c.Id)
		return iterate(c)
	})
	r.w.builds = append(r.w.builds, b)
	return err
}

type buildRec struct {
	start string
	root  string
	seq   []string
}

// delMgrSpy forwards to the real DeletionManager and remembers the state it was given.
type delMgrSpy struct {
	deletionmanager.DeletionManager
	w *world
}

func (d *delMgrSpy) UpdateState(ctx context.Context, state *settingsstate.State) error {
	d.w.lastState = state
	d.w.updates++
	return d.DeletionManager.UpdateState(ctx, state)
}

// queueObserver is the head-update queue of diffSyncer (headUpdater): FIFO, drained by the harness at
// the end of every step instead of by a goroutine (UpdateHeads writes the space hash, so it cannot run
// inside the write transaction that triggered the update).
type queueObserver struct {
	dm *headsync.DiffManager
	q  []headstorage.HeadsEntry
}

func (o *queueObserver) OnUpdate(e headstorage.HeadsEntry) { o.q = append(o.q, e) }

func (o *queueObserver) drain() {
	for len(o.q) > 0 {
		e := o.q[0]
		o.q = o.q[1:]
		o.dm.UpdateHeads(e)
	}
}

// ---- the world -------------------------------------------------------------------------------

type object struct {
	idx     int
	id      string
	parent  int // -1 = none
	payload treestorage.TreeStorageCreatePayload
}

type world struct {
	root    string // temp root dir
	keys    *accountdata.AccountKeys
	spaceId string
	local   *peerEnv
	remotes []*peerEnv // remotes[0] also holds every object tree
	objs    []*object
	byId    map[string]int

	// in-memory machinery of the local peer (rebuilt on restart)
	delState deletionstate.ObjectDeletionState
	delMgr   deletionmanager.DeletionManager
	diff     ldiff.Diff
	dm       *headsync.DiffManager
	obs      *queueObserver
	hs       headsync.HeadSync // the real component, next to dm
	sentinel int
	// onFillDiff, when set, runs once inside the real head sync's FillDiff after the index was filled
	onFillDiff func()
	tm       *fakeTreeManager
	sc       *fakeSyncClient
	settings settings.SettingsObject
	live     map[string]synctree.SyncTree

	builds    []*buildRec
	lastState *settingsstate.State
	updates   int

	// settings trees of the remote authors
	remoteSettings []objecttree.ObjectTree
	remoteState    []*settingsstate.State

	// parked fetch
	fetchIdx  int
	fetchDone chan fetchRes
	recSeq    int64
}

type fetchRes struct {
	t   synctree.SyncTree
	err error
}

func newWorld(nObjs int, parents []int, nRemotes int) (w *world, err error) {
	base := ""
	if fi, e := os.Stat("/dev/shm"); e == nil && fi.IsDir() {
		base = "/dev/shm" // tmpfs: SQLite syncs are the dominant cost otherwise
	}
	dir, err := os.MkdirTemp(base, "verif-deletion-*")
	if err != nil && base != "" {
		dir, err = os.MkdirTemp("", "verif-deletion-*")
	}
	if err != nil {
		return nil, err
	}
	w = &world{root: dir, byId: map[string]int{}, fetchIdx: -1}
	defer func() {
		if err != nil {
			w.destroy()
			w = nil
		}
	}()
	if w.keys, err = accountdata.NewRandom(); err != nil {
		return
	}
	metaKey, _, err := crypto.GenerateRandomEd25519KeyPair()
	if err != nil {
		return
	}
	payload, err := spacepayloads.StoragePayloadForSpaceCreate(spacepayloads.SpaceCreatePayload{
		SigningKey:     w.keys.SignKey,
		SpaceType:      "verif",
		ReplicationKey: 10,
		MasterKey:      w.keys.PeerKey,
		ReadKey:        crypto.NewAES(),
		MetadataKey:    metaKey,
	})
	if err != nil {
		return
	}
	w.spaceId = payload.SpaceHeaderWithId.Id
	mk := func(name string) (*peerEnv, error) {
		d := filepath.Join(dir, name)
		if err := os.MkdirAll(d, 0o755); err != nil {
			return nil, err
		}
		return openPeer(d, w.keys, &payload, "")
	}
	if w.local, err = mk("local"); err != nil {
		return
	}
	for i := 0; i < nRemotes; i++ {
		var p *peerEnv
		if p, err = mk(fmt.Sprintf("remote%d", i)); err != nil {
			return
		}
		w.remotes = append(w.remotes, p)
		var st objecttree.Storage
		if st, err = p.st.TreeStorage(ctx, p.st.StateStorage().SettingsId()); err != nil {
			return
		}
		var tr objecttree.ObjectTree
		if tr, err = objecttree.BuildObjectTree(st, p.acl); err != nil {
			return
		}
		w.remoteSettings = append(w.remoteSettings, tr)
		w.remoteState = append(w.remoteState, nil)
	}
	// the object catalogue: roots made by the real change builder; children are derived roots
	// bound to a parent. Every object also exists on remote 0 with one content change.
	r0 := w.remotes[0]
	for k := 0; k < nObjs; k++ {
		var root *treechangeproto.RawTreeChangeWithId
		if parents[k] >= 0 {
			root, err = objecttree.DeriveObjectTreeRoot(objecttree.ObjectTreeDerivePayload{
				ChangeType:    "verif",
				ChangePayload: []byte(fmt.Sprintf("child-%d", k)),
				SpaceId:       w.spaceId,
				ParentId:      w.objs[parents[k]].id,
			}, r0.acl)
		} else {
			seed := make([]byte, 32)
			seed[0] = byte(k)
			root, err = objecttree.CreateObjectTreeRoot(objecttree.ObjectTreeCreatePayload{
				PrivKey:    w.keys.SignKey,
				ChangeType: "verif",
				SpaceId:    w.spaceId,
				Seed:       seed,
				Timestamp:  time.Now().Unix(),
			}, r0.acl)
		}
		if err != nil {
			return
		}
		o := &object{idx: k, id: root.Id, parent: parents[k], payload: treestorage.TreeStorageCreatePayload{
			RootRawChange: root,
			Changes:       []*treechangeproto.RawTreeChangeWithId{root},
			Heads:         []string{root.Id},
		}}
		w.objs = append(w.objs, o)
		w.byId[o.id] = k
		var st objecttree.Storage
		if st, err = r0.st.CreateTreeStorage(ctx, o.payload); err != nil {
			return
		}
		var tr objecttree.ObjectTree
		if tr, err = objecttree.BuildObjectTree(st, r0.acl); err != nil {
			return
		}
		tr.Lock()
		_, err = tr.AddContent(ctx, objecttree.SignableChangeContent{Data: []byte("remote"), Key: w.keys.SignKey})
		tr.Unlock()
		if err != nil {
			return
		}
	}
	err = w.startLocal()
	return
}

func (w *world) destroy() {
	w.stopLocal()
	if w.local != nil {
		w.local.close()
	}
	for _, p := range w.remotes {
		p.close()
	}
	os.RemoveAll(w.root)
}

// startLocal builds the in-memory machinery over the (re)opened local storage in the order the
// space app runs its components: deletionstate, deletionmanager, settings, …, headsync.
func (w *world) startLocal() error {
	w.live = map[string]synctree.SyncTree{}
	w.updates = 0
	w.builds = nil
	w.lastState = nil
	w.tm = &fakeTreeManager{w: w, marked: map[string]int{}}
	w.sc = &fakeSyncClient{RequestFactory: synctree.NewRequestFactory(w.spaceId), w: w, parked: make(chan struct{}), release: make(chan struct{})}
	a := new(app.App)
	a.Register(&spacestate.SpaceState{SpaceId: w.spaceId, SpaceIsClosed: &atomic.Bool{}, TreesUsed: &atomic.Int32{}, TreeBuilderFunc: objecttree.BuildObjectTree})
	a.Register(w.local.st)
	a.Register(w.tm)
	w.delState = deletionstate.New()
	a.Register(w.delState)
	if err := w.delState.Init(a); err != nil {
		return err
	}
	if err := w.delState.(app.ComponentRunnable).Run(ctx); err != nil {
		return err
	}
	w.delMgr = deletionmanager.New()
	if err := w.delMgr.Init(a); err != nil { // the background loop is never started: the harness schedules the worker
		return err
	}
	w.settings = settings.NewSettingsObject(settings.Deps{
		BuildFunc: func(ctx context.Context, id string, listener updatelistener.UpdateListener) (synctree.SyncTree, error) {
			deps := w.buildDeps()
			deps.Listener = listener
			deps.BuildObjectTree = func(st objecttree.Storage, acl list.AclList) (objecttree.ObjectTree, error) {
				t, err := objecttree.BuildObjectTree(st, acl)
				if err != nil {
					return nil, err
				}
				return &recTree{ObjectTree: t, w: w}, nil
			}
			return synctree.BuildSyncTreeOrGetRemote(ctx, id, deps)
		},
		Account:     &fakeAccount{w.keys},
		TreeManager: w.tm,
		Store:       w.local.st,
		DelManager:  &delMgrSpy{DeletionManager: w.delMgr, w: w},
	}, w.spaceId)
	if err := w.settings.Init(ctx); err != nil {
		return err
	}
	w.diff = ldiff.New(32, 256)
	w.dm = headsync.NewDiffManager(w.diff, w.local.st, &fakeSyncAcl{acl: w.local.acl}, logger.NewNamed("verif"), ctx, w.delState)
	w.obs = &queueObserver{dm: w.dm}
	w.local.st.HeadStorage().AddObserver(w.obs)
	if err := w.dm.FillDiff(ctx); err != nil {
		return err
	}
	return w.startHeadSync()
}

func (w *world) stopLocal() {
	w.stopHeadSync()
	for _, t := range w.live {
		t.Close()
	}
	w.live = nil
	if w.settings != nil {
		w.settings.Close()
		w.settings = nil
	}
}

func (w *world) restart() error {
	w.stopLocal()
	w.local.close()
	p, err := openPeer(w.local.dir, w.keys, nil, w.spaceId)
	if err != nil {
		return err
	}
	w.local = p
	return w.startLocal()
}

func (w *world) buildDeps() synctree.BuildDeps {
	return synctree.BuildDeps{
		SpaceId:         w.spaceId,
		SyncClient:      w.sc,
		AclList:         w.local.acl,
		SpaceStorage:    w.local.st,
		OnClose:         func(id string) {},
		SyncStatus:      syncstatus.NewNoOpSyncStatus(),
		BuildObjectTree: objecttree.BuildObjectTree,
	}
}

// getTree is the tree cache: live object or build from the local storage / fetch from the peer
// named in ctx.
func (w *world) getTree(ctx context.Context, id string) (synctree.SyncTree, error) {
	if t, ok := w.live[id]; ok {
		return t, nil
	}
	t, err := synctree.BuildSyncTreeOrGetRemote(ctx, id, w.buildDeps())
	if err != nil {
		return nil, err
	}
	w.live[id] = t
	return t, nil
}

// remoteResponse is the full-sync answer of remote 0 for a tree.
func (w *world) remoteResponse(id string) (*response.Response, error) {
	st, err := w.remotes[0].st.TreeStorage(ctx, id)
	if err != nil {
		return nil, errRemoteMissing
	}
	root, err := st.Root(ctx)
	if err != nil {
		return nil, err
	}
	heads, err := st.Heads(ctx)
	if err != nil {
		return nil, err
	}
	var chs []*treechangeproto.RawTreeChangeWithId
	err = st.GetAfterOrder(ctx, "", func(ctx context.Context, c objecttree.StorageChange) (bool, error) {
		if c.Id != id {
			chs = append(chs, &treechangeproto.RawTreeChangeWithId{Id: c.Id, RawChange: append([]byte{}, c.RawChange...)})
		}
		return true, nil
	})
	if err != nil {
		return nil, err
	}
	return &response.Response{SpaceId: w.spaceId, ObjectId: id, Heads: heads, Changes: chs, Root: root.RawTreeChangeWithId()}, nil
}

func peerCtx() context.Context { return peer.CtxWithPeerId(ctx, remotePeerId) }

// ---- settings helpers ----------------------------------------------------------------------------

// decodeSettings returns (delete ids, snapshot ids or nil) of a raw settings change body.
func decodeSettings(data []byte) (ids []string, snap []string, isSnap bool) {
	sd := &spacesyncproto.SettingsData{}
	if err := sd.UnmarshalVT(data); err != nil {
		return nil, nil, false
	}
	for _, c := range sd.Content {
		if od := c.GetObjectDelete(); od != nil {
			ids = append(ids, od.Id)
		}
	}
	if sd.Snapshot != nil {
		isSnap = true
		snap = append(snap, sd.Snapshot.DeletedIds...)
	}
	return
}

func sortedKeys(m map[string]struct{}) []string {
	r := make([]string, 0, len(m))
	for k := range m {
		r = append(r, k)
	}
	sort.Strings(r)
	return r
}
