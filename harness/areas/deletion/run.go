package deletion

import (
	"fmt"
	"strings"

	"verifharness/internal/corr"
)

func init() { corr.RegisterArea("deletion", Run) }

// newCase creates a fresh world with n objects; parents[k] = -1 or the index of a non-child object.
func newCase(r *corr.Run, parents []int, nRemotes int) *caseRun {
	n := len(parents)
	w, err := newWorld(n, parents, nRemotes)
	if err != nil {
		r.Fatal("world: " + err.Error())
	}
	c := &caseRun{r: r, w: w, n: n, parents: parents, ridOf: map[string]int{}, attached: map[int]bool{0: true},
		prevDeleted: map[int]bool{}, tombstoned: make([]bool, n), raceTaint: make([]bool, n)}
	sid := w.local.st.StateStorage().SettingsId()
	c.recs = []*record{{rid: 0, realId: sid}}
	c.ridOf[sid] = 0
	r.RestartModel()
	ps := make([]int, n)
	for i, p := range parents {
		ps[i] = p + 1
	}
	if a := c.ask(fmt.Sprintf("init %d %s", n, showInts(ps))); a != "ok" {
		r.Fatal("model init: " + a)
	}
	w.builds = nil
	c.prev = c.observe()
	return c
}

func (c *caseRun) finish(nontrivial bool) {
	c.abortFetch()
	c.w.destroy()
	c.r.Case(strings.Join(c.ops, ";"), nontrivial)
}

func randParents(r *corr.Run, n int) []int {
	ps := make([]int, n)
	for k := range ps {
		ps[k] = -1
		if k > 0 && r.Chance(40) {
			p := r.Intn(k)
			if ps[p] < 0 {
				ps[k] = p
			}
		}
	}
	return ps
}

// pick an object, biased towards tombstoned ids and their children (the guards of C15 all sit there)
func (c *caseRun) pick() int {
	if c.r.Chance(55) {
		var cand []int
		for k, o := range c.prev {
			if o.entry && o.status > 0 {
				cand = append(cand, k)
			}
			if p := c.parents[k]; p >= 0 && c.prev[p].entry && c.prev[p].status > 0 {
				cand = append(cand, k)
			}
		}
		if len(cand) > 0 {
			return cand[c.r.Intn(len(cand))]
		}
	}
	return c.r.Intn(c.n)
}

func (c *caseRun) randomOp(nRemotes int) {
	r := c.r
	x := r.Intn(100)
	switch {
	case x < 2:
		k := c.pick()
		c.withRace(k, func() { c.doPut(k) })
	case x < 4:
		k := c.pick()
		c.withRace(k, func() { c.doFetch(k) })
	case x < 12:
		c.doPut(c.pick())
	case x < 22:
		c.doFetch(c.pick())
	case x < 30:
		if c.w.fetchIdx < 0 {
			c.doFetchStart(c.pick())
		} else if r.Chance(25) {
			c.withRace(c.w.fetchIdx, c.doFetchFinish)
		} else {
			c.doFetchFinish()
		}
	case x < 35:
		if c.w.fetchIdx >= 0 {
			c.doFetchFinish()
		} else {
			c.doEdit(c.pick())
		}
	case x < 43:
		c.doEdit(c.pick())
	case x < 51:
		c.doHead(c.pick())
	case x < 63:
		p := r.Intn(nRemotes)
		cnt := 1 + r.Intn(2)
		var ks []int
		seen := map[int]bool{}
		for i := 0; i < cnt; i++ {
			k := r.Intn(c.n)
			if !seen[k] {
				seen[k] = true
				ks = append(ks, k)
			}
		}
		c.doRec(p, ks, r.Chance(30))
	case x < 67:
		if nRemotes > 1 {
			p := r.Intn(nRemotes)
			c.doXfer(p, (p+1)%nRemotes)
		}
	case x < 78:
		c.doDeliver(r.Intn(nRemotes), r.Chance(60))
	case x < 86:
		c.doDel(c.pick(), r.Chance(30))
	case x < 89:
		c.doRun()
	case x < 91:
		c.doLegacy(c.r.Intn(c.n))
	case x < 93:
		c.doRunFault()
	case x < 96:
		c.doCrash()
	case x < 98:
		c.doRestart()
	default:
		c.doRestartRace(c.pick())
	}
}

// scripted scenarios: one per guard of the code, each followed by random steps
func (c *caseRun) scenario(id int) {
	switch id {
	case 0: // the F-delete-fetch-race schedule
		c.doFetchStart(0)
		c.doRec(0, []int{0}, false)
		c.doDeliver(0, true)
		c.doRun()
		c.doFetchFinish()
		c.doFetch(0)
		c.doRun()
	case 1: // late child of a deleted parent, put and fetched
		c.doPut(0)
		c.doDel(0, false)
		c.doRun()
		c.doPut(1)
		c.doFetch(2)
		c.doRun()
		c.doRestart()
		c.doRun()
	case 2: // restart between queued and deleted; head updates and edits of a queued id
		c.doPut(0)
		c.doEdit(0)
		c.doPut(1)
		c.doEdit(1)
		c.doRec(0, []int{0}, false)
		c.doDeliver(0, true)
		c.doEdit(0)
		c.doHead(0)
		c.doRestart()
		c.doHead(0)
		c.doRun()
		c.doHead(0)
		c.doPut(0)
		c.doFetch(0)
	case 3: // snapshots: remote snapshot after plain records, restart from the snapshot
		c.doRec(0, []int{0}, false)
		c.doRec(0, []int{1}, false)
		c.doRec(0, []int{2}, true)
		c.doRec(0, []int{1}, false)
		c.doDeliver(0, true)
		c.doDeliver(0, true)
		c.doDeliver(0, true)
		c.doDeliver(0, true)
		c.doRestart()
		c.doDel(0, true)
	case 4: // record for an id never seen, then creation attempts
		c.doRec(0, []int{0, 1}, false)
		c.doDeliver(0, true)
		c.doPut(0)
		c.doFetch(0)
		c.doHead(1)
		c.doRun()
		c.doPut(1)
		c.doFetch(1)
		c.doHead(0)
	case 12: // a deletion lands during space start, while the real head sync fills its index
		c.doPut(0)
		c.doEdit(0)
		c.doPut(3)
		c.doEdit(3)
		c.doRestartRace(0)
		c.doRun()
		c.doEdit(3)
		c.doRestart()
	case 10: // legacy root-only entry without common snapshot: advertised by FillDiff, must leave the index when deleted
		k := 3
		if !c.legacyOK(k) {
			k = 0
		}
		c.doLegacy(k)
		c.doRestart()
		if c.r.Chance(50) {
			c.doRec(0, []int{k}, false)
			c.doDeliver(0, true)
		} else {
			c.doDel(k, false)
		}
		c.doPut(k)
		c.doRun()
		c.doRestart()
	case 11: // storage fault in the worker's data removal with the tree open in the cache, then the retry
		c.doPut(0)
		c.doEdit(0)
		c.doPut(1)
		c.doRec(0, []int{0}, false)
		c.doDeliver(0, true)
		c.doRunFault()
		c.doRun()
		c.doFetch(0)
		c.doRestart()
		c.doFetch(0)
		c.doPut(0)
	case 7: // deletion lands between the tombstone checks and the storage-creating transaction of a put
		c.withRace(0, func() { c.doPut(0) })
		c.doRun()
		c.doFetch(0)
		c.doRestart()
	case 8: // … of a one-step remote fetch
		c.withRace(0, func() { c.doFetch(0) })
		c.doRun()
		c.doFetch(0)
	case 9: // … of the response of a parked fetch
		c.doFetchStart(0)
		c.withRace(0, c.doFetchFinish)
		c.doRun()
		c.doFetch(0)
	case 6: // crash inside a worker pass: parent marked Deleted, bound children not yet handled
		c.doPut(0)
		c.doPut(1)
		c.doPut(2)
		c.doEdit(1)
		c.doRec(0, []int{0}, false)
		c.doDeliver(0, true)
		c.doCrash()
		c.doRun()
		c.doRestart()
	case 5: // deletion while the fetch is parked, worker has not run yet
		c.doFetchStart(0)
		c.doRec(0, []int{0}, true)
		c.doDeliver(0, true)
		c.doFetchFinish()
		c.doRun()
		c.doFetch(0)
	}
}

func Run(r *corr.Run) {
	r.SetRule("a case = a fresh space (real any-store) with 3..6 objects (some bound to a parent), 1..2 remote settings authors, and a sequence of 20..60 steps from {put, fetch, fstart/ffin, edit, head, rec (plain/snapshot), xfer, deliver (closed prefix / arbitrary subset, shuffled), del, run, runf (worker pass whose write transactions all fail), legacy (old-format heads entry appears), crash (worker pass cut after its first id, then restart), restart}; 13 scripted guard scenarios (deletion landing during space start inside the real head sync's Run, legacy root-only heads entry deleted, storage-faulted worker pass + retry, fetch race, late child, restart between queued and deleted, snapshot root, tombstone before creation, deletion during a parked fetch, crash inside a worker pass, deletion landing right before the storage-creating transaction of a put / a fetch / a parked fetch's response) each continued randomly; non-trivial = a tombstone was reached; distinct = distinct model-protocol traces")
	// scripted scenarios first (all parents variants relevant to them)
	for _, id := range []int{12, 10, 11, 7, 8, 9, 0, 1, 2, 3, 4, 5, 6} {
		if !r.TimeLeft() {
			break
		}
		for variant := 0; variant < 2; variant++ {
			parents := []int{-1, 0, 0, -1}
			if variant == 1 {
				parents = []int{-1, -1, 0, 1}
				if id == 10 {
					parents = []int{-1, -1, 1, -1}
				}
			}
			c := newCase(r, parents, 1)
			c.scenario(id)
			for i := 0; i < 6 && !c.bad; i++ {
				c.randomOp(1)
			}
			r.Count(fmt.Sprintf("scenario.%d", id))
			c.finish(true)
		}
	}
	maxCases := r.Pick(400, 100000)
	for i := 0; i < maxCases && r.TimeLeft(); i++ {
		n := 3 + r.Intn(4)
		nRem := 1
		if r.Chance(35) {
			nRem = 2
		}
		c := newCase(r, randParents(r, n), nRem)
		steps := 20 + r.Intn(41)
		for j := 0; j < steps && !c.bad; j++ {
			c.randomOp(nRem)
		}
		tomb := false
		for _, t := range c.tombstoned {
			tomb = tomb || t
		}
		if i < 3 {
			r.Sample(map[string]any{"ops": c.ops})
		}
		r.Count("cases.random")
		c.finish(tomb)
	}
}
